"""Engine shared by the assembler-side properties (C10, C14, C15, C16, C17):
runs the real bronzebeard.asm (assemble / cli_main) on SimFS, with crash-point
injection, and optionally on the real file system for cross-validation."""
import contextlib
import io
import logging
import os
import shutil
import subprocess
import sys
import tempfile
import traceback

from . import core
from .simfs import SimFS, SimOS, ShimGap
from .realfs import RealFS, cleanup_base

asm = None
intelhex = None
ASM_FILE = None
DEFINITIONS = {}
DEFINITIONS_DIR = None

PASSES = ['read_lines', 'lex_tokens', 'parse_item', 'resolve_constants', 'resolve_labels', 'resolve_register_aliases',
          'transform_compressible', 'transform_pseudo_instructions', 'resolve_aligns', 'resolve_immediates',
          'resolve_instructions', 'resolve_strings', 'resolve_sequences', 'transform_shorthand_packs', 'resolve_packs',
          'resolve_include_bytes', 'resolve_blobs']


class SimCrash(BaseException):
    """Injected teardown of assemble() at an arbitrary executed line."""


class ForeignError(Exception):
    """Injected non-assembler exception (what a bug in a pass would raise)."""


def init():
    global asm, intelhex, ASM_FILE, DEFINITIONS_DIR
    if asm is not None:
        return
    core.ensure_repo_on_path()
    import bronzebeard.asm as _asm
    import intelhex as _ih
    assert os.path.abspath(_asm.__file__).startswith(core.REPO + os.sep), _asm.__file__
    asm = _asm
    intelhex = _ih
    ASM_FILE = _asm.__file__
    DEFINITIONS_DIR = os.path.join(os.path.abspath(os.path.dirname(ASM_FILE)), 'definitions')
    if os.path.isdir(DEFINITIONS_DIR):
        for name in sorted(os.listdir(DEFINITIONS_DIR)):
            with open(os.path.join(DEFINITIONS_DIR, name), 'rb') as f:
                DEFINITIONS[name] = f.read()
    from . import realfs
    realfs.base_dir()      # scratch directory owned by this (parent) process; forked children inherit it
    choose_backend()


def add_definitions(fs):
    if getattr(fs, 'is_real', False):
        return          # the real definitions directory is already there
    for name, data in DEFINITIONS.items():
        fs.put(DEFINITIONS_DIR + '/' + name, data)


BACKEND = 'sim'           # 'sim' (SimFS shim) or 'real' (private temp dir; automatic fallback, see choose_backend)
BACKEND_REASON = ''
_saved_cwd = []


class NeedRealBackend(Exception):
    """The code under test reached for a file-system call the SimFS shim does not model."""


def make_fs(files=None, dirs=None, cwd='/', log=None, faults=None):
    if BACKEND == 'real':
        return RealFS(files, dirs, cwd=cwd, log=log, faults=faults)
    return SimFS(files, dirs, cwd=cwd, log=log, faults=faults)


def install(fs):
    if getattr(fs, 'is_real', False):
        _saved_cwd.append(os.getcwd())
        os.chdir(fs.root + fs.cwd)
        return
    asm.os = SimOS(fs)
    asm.open = fs.open
    intelhex.open = fs.open


def uninstall():
    if _saved_cwd:
        os.chdir(_saved_cwd.pop())
    asm.os = os
    asm.__dict__.pop('open', None)
    intelhex.__dict__.pop('open', None)


def retry_real(fn, *args, **kw):
    """Run fn; if the SimFS shim turns out not to model what the code under test calls, switch this process to the
    real backend and run it again from scratch."""
    global BACKEND, BACKEND_REASON
    try:
        return fn(*args, **kw)
    except NeedRealBackend as e:
        BACKEND = 'real'
        BACKEND_REASON = 'degraded: %s' % e
        return fn(*args, **kw)


def with_fallback(fn):
    def wrapper(scen, keep_events=False):
        res = retry_real(fn, scen, keep_events)
        res.hit('backend:' + BACKEND)
        return res
    wrapper.__name__ = fn.__name__
    return wrapper


def _tr_arg(fs, a):
    if not getattr(fs, 'is_real', False) or not isinstance(a, str):
        return a
    if '=' in a and a.startswith('--'):
        k, v = a.split('=', 1)
        return k + '=' + fs.real(v)
    return fs.real(a)


def _strip(fs, text):
    return fs.strip(text) if getattr(fs, 'is_real', False) else text


CANARY_FILES = {'/w/c/main.asm': b'include inc.asm\nstart:\n    addi t0, t0, K\ninclude_bytes b.bin\nalign 4\n', '/w/c/inc.asm': b'K = 5\n', '/w/c/b.bin': b'\x01\x02'}


def _canary(fs):
    x = run_cli(fs, ['-o', '/w/c/o.bin', '-l', '/w/c/l.txt', '--hex-offset', '0x100', '/w/c/main.asm'], core.EventLog(0))
    out = fs.files.get('/w/c/o.bin')
    return x['outcome'] == 'ok' and out is not None and len(out) == 8 and out[4:6] == b'\x01\x02' and fs.files.get('/w/c/o.bin.hex') is not None


def choose_backend():
    """Probe: does the code under test see the SimFS shim?  A refactor that reaches the file system another way
    (pathlib, io.open, ...) would find nothing under the virtual root and every run would fail for the wrong reason.
    If the canary fails on SimFS but works on a real temp tree, the whole batch runs on the real backend."""
    global BACKEND, BACKEND_REASON
    if os.environ.get('VERIF_BACKEND') in ('sim', 'real'):
        BACKEND = os.environ['VERIF_BACKEND']
        BACKEND_REASON = 'forced by VERIF_BACKEND'
        return BACKEND
    # the probe assembles a program, so it runs in a forked child: this process must stay one that has imported
    # bronzebeard.asm and never called it (C16's reference is forked from it)
    def probe(factory):
        try:
            return bool(_canary(factory(CANARY_FILES, ['/w/c'], cwd='/w/c')))
        except Exception:
            return False
    try:
        ok_sim = core.run_isolated(probe, SimFS, timeout=120)
    except core.HarnessError:
        ok_sim = False
    if ok_sim:
        BACKEND = 'sim'
        return BACKEND
    try:
        ok_real = core.run_isolated(probe, RealFS, timeout=120)
    except core.HarnessError:
        ok_real = False
    if ok_real:
        BACKEND = 'real'
        BACKEND_REASON = 'degraded: canary program fails on the SimFS shim but assembles on the real file system (the code bypasses asm.os/asm.open)'
    return BACKEND


def reset_logging():
    root = logging.getLogger()
    for h in list(root.handlers):
        root.removeHandler(h)
    root.setLevel(logging.WARNING)


RECURSION_HEADROOM = 500


class fixed_recursion_headroom:
    """Give the code under test the same number of stack frames whatever the depth of the harness above it, so that a
    RecursionError (runaway include recursion in a broken variant) happens at the same point in a batch child and in a
    fresh replay interpreter."""

    def __enter__(self):
        self.old = sys.getrecursionlimit()
        depth = 0
        f = sys._getframe()
        while f is not None:
            depth += 1
            f = f.f_back
        sys.setrecursionlimit(depth + RECURSION_HEADROOM)

    def __exit__(self, *a):
        sys.setrecursionlimit(self.old)


class _State:
    def __init__(self):
        self.depth = 0
        self.count = 0
        self.target = None
        self.tracing = False
        self.pass_calls = {}
        self.assemble_returned_seq = None
        self.assemble_entered_seq = None
        self.inject_fired = False


def _make_tracer(st):
    asm_file = ASM_FILE

    def local(frame, event, arg):
        if event == 'line':
            st.count += 1
            if st.count == st.target:
                raise SimCrash('crash at executed line %d (%s:%d)' % (st.count, frame.f_code.co_name, frame.f_lineno))
        return local

    def tracer(frame, event, arg):
        if frame.f_code.co_filename != asm_file:
            return None
        return local
    return tracer


@contextlib.contextmanager
def instrumented(log, inject, st):
    """Wrap asm.assemble (enter/return events, line tracer) and optionally one pass."""
    orig_assemble = asm.assemble
    saved = {}

    def assemble_wrapper(*a, **k):
        st.depth += 1
        st.assemble_entered_seq = log.add('assemble-enter')
        tracing = inject is not None and inject.get('kind') in ('line', 'count')
        if tracing:
            sys.settrace(_make_tracer(st))
        try:
            r = orig_assemble(*a, **k)
            if tracing:
                sys.settrace(None)
            st.assemble_returned_seq = log.add('assemble-return', len(r))
            return r
        finally:
            if tracing:
                sys.settrace(None)
            st.depth -= 1

    assemble_wrapper.__wrapped__ = orig_assemble
    asm.assemble = assemble_wrapper
    if inject is not None and inject.get('kind') == 'pass' and getattr(asm, inject['pass'], None) is None:
        # the pass was renamed or merged away in this tree: this crash point does not exist here
        log.add('INJECT-SKIPPED', inject['pass'])
        inject = None
    if inject is not None and inject.get('kind') == 'pass':
        name = inject['pass']
        orig = getattr(asm, name)
        saved[name] = orig

        def pass_wrapper(*a, **k):
            if st.depth == 0:
                return orig(*a, **k)
            n = st.pass_calls.get(name, 0) + 1
            st.pass_calls[name] = n
            fire = n == inject.get('nth', 1)

            def boom():
                st.inject_fired = True
                log.add('INJECT', name, inject['when'], inject['exc'])
                if inject['exc'] == 'asm':
                    raise asm.AssemblerError('injected failure in %s' % name, asm.Line('<injected>', 1, 'injected'))
                if inject['exc'] == 'oserror':
                    raise OSError(5, 'injected I/O error in %s' % name)
                raise ForeignError('injected foreign failure in %s' % name)
            if fire and inject['when'] == 'entry':
                boom()
            r = orig(*a, **k)
            if fire and inject['when'] == 'exit':
                boom()
            return r
        setattr(asm, name, pass_wrapper)
    try:
        yield
    finally:
        sys.settrace(None)
        asm.assemble = orig_assemble
        for name, fn in saved.items():
            setattr(asm, name, fn)


def failing_pass(tb):
    """Name of the function called directly by assemble() on the failing path, and the innermost asm.py function."""
    frames = traceback.extract_tb(tb)
    names = [f.name for f in frames if f.filename == ASM_FILE]
    top = None
    for i, f in enumerate(frames):
        if f.filename == ASM_FILE and f.name == 'assemble':
            for g in frames[i + 1:]:
                if g.filename == ASM_FILE:
                    top = g.name
                    break
            if top is None:
                top = 'assemble'
    return top, (names[-1] if names else None)


def run_cli(fs, argv, log, inject=None):
    """Run the real asm.cli_main() on SimFS.  Returns a dict."""
    st = _State()
    if inject is not None and inject.get('kind') == 'line':
        st.target = inject['n']
    out, err = io.StringIO(), io.StringIO()
    saved_argv = sys.argv
    sys.argv = ['bronzebeard'] + [_tr_arg(fs, a) for a in argv]
    fs.log = log
    install(fs)
    res = {'outcome': 'ok', 'code': 0, 'msg': '', 'exc': None, 'pass': None, 'inner': None, 'shim_gap': None}
    try:
        with contextlib.redirect_stdout(out), contextlib.redirect_stderr(err), instrumented(log, inject, st), fixed_recursion_headroom():
            try:
                rv = asm.cli_main()
                if rv is not None:
                    # the installed `bronzebeard` command is the console-script launcher: sys.exit(cli_main())
                    raise SystemExit(rv)
            except SystemExit as e:
                c = e.code
                if c is None or c == 0:
                    res['outcome'] = 'ok'
                elif isinstance(c, int):
                    res.update(outcome='exit', code=c)
                else:
                    res.update(outcome='exit-message', code=1, msg=str(c))
                    if isinstance(c, asm.AssemblerError):
                        res['exc'] = 'AssemblerError'
                        ln = getattr(c, 'line', None)
                        res['err_file'] = getattr(ln, 'file', None)
                        res['err_line'] = getattr(ln, 'number', None)
                if e.__context__ is not None and e.__context__.__traceback__ is not None:
                    res['pass'], res['inner'] = failing_pass(e.__context__.__traceback__)
            except SimCrash as e:
                res.update(outcome='crash', code=1, msg=str(e), exc='SimCrash')
            except ShimGap as e:
                res.update(outcome='exception', code=1, msg=str(e), exc='ShimGap', shim_gap=str(e))
            except Exception as e:
                res.update(outcome='exception', code=1, msg='%s: %s' % (type(e).__name__, e), exc=type(e).__name__)
                res['pass'], res['inner'] = failing_pass(e.__traceback__)
    finally:
        uninstall()
        sys.argv = saved_argv
        reset_logging()
    if res.get('shim_gap'):
        raise NeedRealBackend(res['shim_gap'])
    res['msg'] = _strip(fs, res['msg'])
    if res.get('err_file'):
        res['err_file'] = _strip(fs, res['err_file'])
    res['stdout'] = _strip(fs, out.getvalue())
    res['stderr'] = _strip(fs, err.getvalue())
    res['lines_executed'] = st.count
    res['assemble_returned_seq'] = st.assemble_returned_seq
    res['assemble_entered_seq'] = st.assemble_entered_seq
    res['inject_fired'] = st.inject_fired
    if hasattr(fs, 'finalize_leaked'):
        fs.finalize_leaked()
    log.add('cli-end', res['outcome'], res['code'], (res['msg'] or '')[:160])
    return res


def run_api(fs, call, log, inject=None):
    """Run the real asm.assemble() on SimFS.  call = {target, compress, include_dirs, constants, labels}."""
    st = _State()
    if inject is not None and inject.get('kind') == 'line':
        st.target = inject['n']
    fs.log = log
    install(fs)
    constants = call.get('constants')
    labels = call.get('labels')
    kw = {'compress': bool(call.get('compress'))}
    if call.get('include_dirs') is not None:
        kw['include_dirs'] = call['include_dirs']
        if getattr(fs, 'is_real', False):
            # same list object semantics are kept for SimFS; on the real backend a translated copy is passed
            kw['include_dirs'] = [fs.real(d) for d in call['include_dirs']]
    target = call['target']
    if getattr(fs, 'is_real', False) and '\n' not in target:
        target = fs.real(target)
    c_obj = dict(constants) if constants is not None else None
    l_obj = dict(labels) if labels is not None else None
    if call.get('pass_dicts', True):
        c_obj = c_obj if c_obj is not None else {}
        l_obj = l_obj if l_obj is not None else {}
        kw['constants'] = c_obj
        kw['labels'] = l_obj
    out = {'ok': False}
    buf = io.StringIO()
    try:
        with contextlib.redirect_stdout(buf), contextlib.redirect_stderr(buf), instrumented(log, inject, st), fixed_recursion_headroom():
            try:
                b = asm.assemble(target, **kw)
                out = {'ok': True, 'bytes': bytes(b).hex(), 'labels': dict(l_obj) if l_obj is not None else None,
                       'constants': dict(c_obj) if c_obj is not None else None, 'raw': b}
            except asm.AssemblerError as e:
                ln = getattr(e, 'line', None)
                out = {'ok': False, 'exc': 'AssemblerError', 'is_asm_error': True, 'msg': getattr(e, 'message', str(e)),
                       'file': getattr(ln, 'file', None), 'line': getattr(ln, 'number', None), 'text': str(e)}
                out['pass'], out['inner'] = failing_pass(e.__traceback__)
            except SimCrash as e:
                out = {'ok': False, 'exc': 'SimCrash', 'is_asm_error': False, 'msg': str(e)}
            except ShimGap as e:
                out = {'ok': False, 'exc': 'ShimGap', 'is_asm_error': False, 'msg': str(e), 'shim_gap': str(e)}
            except Exception as e:
                out = {'ok': False, 'exc': type(e).__name__, 'is_asm_error': False, 'msg': str(e)}
                out['pass'], out['inner'] = failing_pass(e.__traceback__)
    finally:
        uninstall()
        reset_logging()
    if out.get('shim_gap'):
        raise NeedRealBackend(out['shim_gap'])
    for k in ('msg', 'file', 'text'):
        if out.get(k):
            out[k] = _strip(fs, out[k])
    out['lines_executed'] = st.count
    out['inject_fired'] = st.inject_fired
    out['objs'] = (c_obj, l_obj)
    if hasattr(fs, 'finalize_leaked'):
        fs.finalize_leaked()
    log.add('api-end', out.get('ok'), out.get('exc'), (out.get('msg') or '')[:120], out.get('file'), out.get('line'))
    return out


# --------------------------------------------------------------------------
# real-file-system backend (cross-validation; no write-time faults)

def materialise(files, dirs, root):
    for d in sorted(dirs):
        os.makedirs(root + d, exist_ok=True)
    for p, data in files.items():
        os.makedirs(os.path.dirname(root + p), exist_ok=True)
        with open(root + p, 'wb') as f:
            f.write(data)


def read_back(root):
    out = {}
    for dp, dn, fn in os.walk(root):
        for name in fn:
            full = os.path.join(dp, name)
            with open(full, 'rb') as f:
                out[full[len(root):]] = f.read()
    return out


def run_cli_real(files, dirs, cwd, argv, path_args=(), hashseed='0', timeout=60):
    """Run `python -m bronzebeard.asm` in a subprocess on a real temp tree.
    Absolute virtual paths inside argv are rewritten under the temp root."""
    base = '/dev/shm' if os.path.isdir('/dev/shm') and os.access('/dev/shm', os.W_OK) else None
    root = tempfile.mkdtemp(prefix='bbverif-real-', dir=base)
    try:
        materialise(files, set(dirs) | {cwd}, root)
        real_argv = [(root + a) if (a.startswith('/') and not a.startswith(core.REPO)) else a for a in argv]
        env = dict(os.environ, PYTHONPATH=core.REPO, PYTHONHASHSEED=str(hashseed), PYTHONDONTWRITEBYTECODE='1')
        p = subprocess.run([sys.executable, '-B', '-m', 'bronzebeard.asm'] + real_argv, cwd=root + cwd, env=env,
                           capture_output=True, timeout=timeout)
        tree = read_back(root)
        norm = lambda b: b.decode('utf-8', 'replace').replace(root, '')
        return {'code': p.returncode, 'stdout': norm(p.stdout), 'stderr': norm(p.stderr), 'files': tree}
    finally:
        shutil.rmtree(root, ignore_errors=True)
