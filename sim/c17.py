"""C17 - the command line writes exactly the assembled program, or nothing on failure."""
import copy
import posixpath

from . import core, asmsim, progs, ihex
from .simfs import SimFS

ID = 'C17'
LEVEL = 'fault_enumeration'
RULE = ('each run executes the real asm.cli_main() in-process on SimFS with a generated argv (-c, -i, -o, -l, --hex-offset, '
        '--include-definitions, -v; cwd and path spellings varied), a generated include tree (valid, or with one planted faulty line so '
        'that the failure is raised from a chosen pass), pre-existing output/label/hex files with sentinel content, and optionally an '
        'injected crash point: an AssemblerError or a foreign exception at entry/exit of each of the 17 passes, or a teardown at the n-th '
        'executed line inside assemble() (sys.settrace).  Fault enumeration: every pass x entry/exit x exception kind is enumerated; '
        'line-level crash points are swept exhaustively for a set of programs in the thorough tier and sampled in quick.  non-trivial = '
        'the run failed with pre-existing files present, or succeeded and had its outputs checked against the API; distinct = '
        '(outcome, failing pass, injection kind, option set, pre-existing set) signatures')
COMPONENTS = {'real': ['bronzebeard/asm.py (cli_main, argparse, all passes)', 'intelhex.bin2hex (open redirected to SimFS)', 'logging'],
              'stub': ['file system and cwd (SimFS; a sample of scenarios - reach counter xval:sim-and-real-agree - is executed on SimFS and on a private real temp tree and must end identically)']}
ASSUMPTIONS = ['crash points are confined to the dynamic extent of assemble() plus the CLI\'s own option validation (that is what "failures raised from every pass" covers)',
               'write-phase I/O faults (ENOSPC, EIO, missing output directory) and hex offsets with no Intel HEX representation are observations, not verdicts',
               'the -l file is judged as: one line per label, the label name and an integer in any base equal to the API\'s labels dict']
REQUIRED_REACH = {'quick': ['fail:with-preexisting-files', 'ok:outputs-checked', 'inject:pass-fired', 'inject:line-fired'],
                  'thorough': ['fail:with-preexisting-files', 'ok:outputs-checked', 'inject:pass-fired', 'inject:line-fired']}
FATAL_OBS = ('xval:DISAGREE',)
EXPECTED_REACH = ['pre:output-already-identical', 'xval:sim-and-real-agree', 'ok:hex-checked', 'ok:labels-checked', 'ok:hex-straddles-64k', 'fail:cli-validation', 'opt:include-definitions',
                  'opt:verbose', 'opt:compress', 'fail:natural'] + ['failpass:' + p for p in asmsim.PASSES if p not in ('resolve_labels', 'resolve_strings', 'resolve_blobs', 'lex_tokens', 'transform_shorthand_packs', 'resolve_register_aliases', 'resolve_include_bytes', 'resolve_aligns')]
CHUNK = 100
SENT = {'out': 'OLD-OUTPUT-SENTINEL\n', 'labels': 'old_label 0x00000bad\n', 'hex': ':00000001FF\n'}
HEX_OK = ['0', '0x08000000', '134217728', '0o1000', '0xFFF0', '0xFFFE', '65535', '0x20000', '0b1000', '0x1FFFC', '+16', ' 32', '0x0', '0X10', '1_000']
HEX_BAD = ['zz', '08', '0x', '1.5', 'ten', '0xg']
HEX_OBS = ['0xFFFFFFF0', '-4', '0x100000000']


def worker_init():
    asmsim.init()


def parent_init(tier, seed):
    asmsim.init()


# --------------------------------------------------------------------------
# scenario generation

def base_scenario(r, want=None):
    want = want or r.choice(('valid', 'valid', 'valid', 'fault', 'fault'))
    tree = progs.gen_tree(r, max_depth=2, allow_bytes=r.random() < 0.3)
    special = r.random()
    if want == 'valid' and special < 0.1:
        # programs with no label at all / no bytes at all / data only
        body = r.choice(('', '\n', '# only a comment\n', 'KA = 5\n', '    addi t0, t0, 1\n', 'db 1\n', '    nop\n    nop\n', 'string x\n'))
        tree = {'files': {'/w/proj/main.asm': body}, 'bins': {}, 'dirs': list(progs.LAYOUT_DIRS), 'main': '/w/proj/main.asm', 'inc_dirs': [],
                'includes': [], 'symbols': {'labels': [], 'consts': [], 'bigs': [], 'dlabels': [], 'regconsts': []}}
    elif want == 'valid' and special < 0.14:
        # an image longer than 64 KiB (the HEX file needs extended address records whatever the offset)
        tree['bins'] = dict(tree.get('bins') or {})
        tree['bins'][posixpath.dirname(tree['main']) + '/big.bin'] = {'rand': [r.randrange(1 << 30), r.choice((65536, 65537, 70000))]}
        tree['files'][tree['main']] = tree['files'][tree['main']].rstrip('\r\n') + '\nalign 4\ninclude_bytes big.bin\nalign 4\nafter_big:\n    nop\n'
    if r.random() < 0.5:
        progs.add_decoys(r, tree, heavy=False)
    planted = None
    if want == 'fault':
        cls = r.choice([c for c in progs.FAULTS if c != 'duplicate-label'])
        planted = list(progs.plant_fault(r, tree, cls)) + [cls]
    main = tree['main']
    cwd = r.choice((posixpath.dirname(main), posixpath.dirname(main), '/w', '/w/elsewhere', '/w/proj'))
    spell = lambda p: p if r.random() < 0.5 else posixpath.relpath(p, cwd)
    argv = []
    opts = {'compress': False, 'verbose': False, 'defs': False, 'inc': [], 'hex': None}
    if r.random() < 0.5:
        argv.append(r.choice(('-c', '--compress')))
        opts['compress'] = True
    for d in tree['inc_dirs']:
        s = spell(d)
        argv += [r.choice(('-i', '--include')), s]
        opts['inc'].append(posixpath.normpath(posixpath.join(cwd, s)))
    k = r.random()
    bad_cli = None
    if k < 0.04:
        argv += ['-i', r.choice(('/w/nonexistent', 'nodir', main))]
        bad_cli = 'invalid-include-dir'
    if r.random() < 0.08:
        argv.append('--include-definitions')
        opts['defs'] = True
        if r.random() < 0.6:
            # ... and actually use it: the bundled definitions are included by bare name
            dn = r.choice(('ST7735S.asm', 'FE310-G002.asm', 'GD32VF103.asm', 'ESP8266.asm'))
            first = tree['files'][main].split('\n')[0]
            eol = '\r\n' if first.endswith('\r') else '\n'
            tree['files'][main] = r.choice(('include %s', 'include "%s"')) % dn + eol + tree['files'][main]
            if planted and planted[0] == main:
                planted[1] += 1
    if r.random() < 0.15:
        argv.append(r.choice(('-v', '--verbose')))
        opts['verbose'] = True
    oc = r.random()
    if oc < 0.3:
        out = posixpath.join(cwd, 'bb.out')
    else:
        o = r.choice(('out.bin', 'out/prog.bin', '/w/proj/out/abs.bin', '../w_up.bin' if cwd != '/w' else 'up.bin', './dot.bin', 'fw.hex', 'FW.HEX', 'prog.bin.hex', 'my out.bin', 'prog-\u00e9.bin'))
        if r.random() < 0.06:
            argv += ['-o', 'overridden.bin']          # a repeated option: the last one wins
        argv += [r.choice(('-o', '--output', '--out')), o]
        out = posixpath.normpath(posixpath.join(cwd, o))
    labels = None
    if r.random() < 0.6:
        l = r.choice(('labels.txt', '/w/proj/out/labels.abs', 'out/l.txt', 'la bels.txt', 'l\u00e4bels.txt'))
        argv += [r.choice(('-l', '--labels', '--lab')), l]
        labels = posixpath.normpath(posixpath.join(cwd, l))
    hk = r.random()
    hexpath = None
    if hk < 0.45:
        c = r.random()
        ho = r.choice(HEX_OK) if c < 0.7 else (r.choice(HEX_BAD) if c < 0.93 else r.choice(HEX_OBS))
        argv += [r.choice(('--hex-offset', '--hex-offset', '--hex')), ho] if r.random() < 0.7 else ['--hex-offset=' + ho]
        opts['hex'] = ho
        hexpath = out + '.hex'
    if hexpath is None and r.random() < 0.4:
        # an older <output>.hex lies around although this run does not ask for one: a failing run must leave it alone too
        stale_hex = out + '.hex'
    else:
        stale_hex = None
    inp = spell(main)
    if r.random() < 0.03:
        inp = spell(posixpath.dirname(main) + '/absent.asm')
        bad_cli = bad_cli or 'missing-input'
    argv.insert(r.randint(0, len(argv)) if r.random() < 0.3 and not any(a in ('-i', '--include', '-o', '--output', '-l', '--labels', '--hex-offset') for a in argv) else len(argv), inp)
    pre = {}
    for key, pth in (('out', out), ('labels', labels), ('hex', hexpath)):
        if pth is not None and r.random() < 0.7:
            pre[key] = SENT[key]
    # output directories: exist (dirs list) unless deliberately missing -> write-phase failure (observation)
    dirs = list(tree['dirs'])
    for pth in (out, labels):
        if pth is not None:
            d = posixpath.dirname(pth)
            if d not in dirs and r.random() < 0.85:
                dirs.append(d)
    if cwd not in dirs:
        dirs.append(cwd)
    return {'tree': tree, 'dirs': dirs, 'cwd': cwd, 'argv': argv, 'input': posixpath.normpath(posixpath.join(cwd, inp)),
            'paths': {'out': out, 'labels': labels, 'hex': hexpath, 'stale_hex': stale_hex}, 'opts': opts, 'pre': dict(pre, **({'stale_hex': SENT['hex']} if stale_hex else {})), 'planted': planted,
            'bad_cli': bad_cli, 'inject': None, 'fs_faults': []}


def plan(tier, seed):
    specs = []
    nprog = 6 if tier == 'quick' else 40
    for j in range(nprog):
        for p in asmsim.PASSES:
            for when in ('entry', 'exit'):
                for exc in ('asm', 'foreign', 'oserror'):
                    nths = (1, 2) if p in ('resolve_register_aliases', 'transform_compressible', 'lex_tokens', 'parse_item', 'read_lines') else (1,)
                    for nth in nths:
                        specs.append({'k': 'p', 'j': j, 'pass': p, 'when': when, 'exc': exc, 'nth': nth})
    for ho in HEX_OK + HEX_BAD + HEX_OBS:
        for j in range(3 if tier == 'quick' else 20):
            specs.append({'k': 'h', 'j': j, 'ho': ho})
    if tier == 'thorough':
        asmsim.init()
        for j in range(40):
            scen = sweep_base(seed, j)
            total = count_lines(scen)
            specs.extend({'k': 'ls', 'j': j, 'n': n} for n in range(1, total + 1))
    specs.extend({'k': 'r'} for _ in range(9000 if tier == 'quick' else 600000))
    specs.extend({'k': 'l'} for _ in range(4000 if tier == 'quick' else 200000))
    specs.extend({'k': 'w'} for _ in range(600 if tier == 'quick' else 30000))
    specs.extend({'k': 'x'} for _ in range(60 if tier == 'quick' else 2000))
    return specs


def sweep_base(seed, j):
    r = core.rng_for(ID, seed, 'sweep', str(j))
    scen = base_scenario(r, want='valid')
    tries = 0
    while scen['bad_cli'] and tries < 10:
        scen = base_scenario(r, want='valid')
        tries += 1
    return scen


def count_lines(scen):
    c = copy.deepcopy(scen)
    c['inject'] = {'kind': 'count'}
    fs = build_fs(c)
    out = asmsim.run_cli(fs, c['argv'], core.EventLog(0), inject=c['inject'])
    return out['lines_executed']


def make_scenario(spec, seed, idx):
    k = spec['k']
    if k == 'p':
        r = core.rng_for(ID, seed, 'passprog', str(spec['j']))
        scen = base_scenario(r, want='valid')
        if 'compress' in spec['pass'] and not scen['opts']['compress']:
            scen['argv'].insert(0, '-c')
            scen['opts']['compress'] = True
        scen['inject'] = {'kind': 'pass', 'pass': spec['pass'], 'when': spec['when'], 'exc': spec['exc'], 'nth': spec['nth']}
        for key in ('out', 'labels', 'hex'):
            if scen['paths'][key]:
                scen['pre'][key] = SENT[key]
        return scen
    if k == 'h':
        r = core.rng_for(ID, seed, 'hexprog', str(spec['j']))
        scen = base_scenario(r, want='valid')
        argv = [a for a in scen['argv']]
        # drop any generated hex option, then add the enumerated one
        out = []
        skip = False
        for a in argv:
            if skip:
                skip = False
                continue
            if a in ('--hex-offset', '--hex'):
                skip = True
                continue
            if a.startswith('--hex-offset='):
                continue
            out.append(a)
        scen['argv'] = ['--hex-offset', spec['ho']] + out
        scen['opts']['hex'] = spec['ho']
        scen['paths']['hex'] = scen['paths']['out'] + '.hex'
        for key in ('out', 'labels', 'hex'):
            if scen['paths'][key]:
                scen['pre'][key] = SENT[key]
        return scen
    if k == 'ls':
        scen = sweep_base(seed, spec['j'])
        scen['inject'] = {'kind': 'line', 'n': spec['n']}
        for key in ('out', 'labels', 'hex'):
            if scen['paths'][key]:
                scen['pre'][key] = SENT[key]
        return scen
    r = core.rng_for(ID, seed, idx)
    scen = base_scenario(r)
    if k == 'r' and not scen['planted'] and not scen['bad_cli'] and r.random() < 0.12:
        # the older -o file happens to hold exactly what this run will produce (a rebuild), next to a stale .hex / -l file
        ref_fs = asmsim.make_fs(progs.tree_files_bytes(scen['tree']), scen['dirs'], cwd=scen['cwd'])
        if scen['opts'].get('defs'):
            asmsim.add_definitions(ref_fs)
        inc = list(scen['opts']['inc']) + ([asmsim.DEFINITIONS_DIR] if scen['opts']['defs'] else [])
        ref = asmsim.retry_real(asmsim.run_api, ref_fs, {'target': scen['input'], 'compress': scen['opts']['compress'], 'include_dirs': inc}, core.EventLog(0))
        if ref['ok']:
            scen['pre_hex'] = {'out': ref['bytes']}
            for key in ('labels', 'hex'):
                if scen['paths'][key]:
                    scen['pre'][key] = SENT[key]
            scen['pre'].pop('out', None)
    if k == 'l':
        total = count_lines(scen)
        if total:
            c = r.random()
            n = r.randint(1, total) if c < 0.8 else r.choice((1, 2, total, total - 1, max(1, total - 5)))
            scen['inject'] = {'kind': 'line', 'n': max(1, n)}
    elif k == 'x':
        scen['xval'] = True
    elif k == 'w':
        scen['fs_faults'] = [{'op': r.choice(('write', 'write', 'open-w')), 'n': r.randint(1, 3), 'kind': r.choice(('ENOSPC', 'EIO', 'EACCES'))}]
    return scen


def build_fs(scen, factory=None):
    files = progs.tree_files_bytes(scen['tree'])
    fs = (factory or asmsim.make_fs)(files, scen['dirs'], cwd=scen['cwd'], faults=copy.deepcopy(scen.get('fs_faults') or []))
    if scen['opts'].get('defs'):
        asmsim.add_definitions(fs)
    for key, content in (scen.get('pre') or {}).items():
        p = scen['paths'].get(key)
        if p and posixpath.dirname(p) in fs.dirs:
            fs.put(p, content)
    for key, hx in (scen.get('pre_hex') or {}).items():
        p = scen['paths'].get(key)
        if p and posixpath.dirname(p) in fs.dirs:
            fs.put(p, bytes.fromhex(hx))
    return fs


# --------------------------------------------------------------------------
# execution and oracles

def parse_labels_file(text, names):
    """One line per label with its final address.  The exact layout is not part of the statement: a line must hold the
    label name as a token and, among its other tokens, exactly one integer (any base, punctuation such as = : , ignored)."""
    out = {}
    lines = [l for l in text.split('\n') if l.strip()]
    for l in lines:
        toks = [t.strip('=:,;()[]') for t in l.replace('=', ' ').replace(':', ' ').split()]
        toks = [t for t in toks if t]
        name = [t for t in toks if t in names]
        if len(name) != 1 or name[0] in out:
            return None, len(lines)
        rest = list(toks)
        rest.remove(name[0])
        ints = []
        for t in rest:
            try:
                ints.append(int(t, 0))
            except ValueError:
                try:
                    ints.append(int(t, 16) if any(c in 'abcdefABCDEF' for c in t) else int(t))
                except ValueError:
                    pass
        if len(set(ints)) != 1:
            return None, len(lines)
        out[name[0]] = ints[0]
    return out, len(lines)


def cross_validate(scen, res):
    """Fidelity of the stub: the same scenario on SimFS and on a real temp tree must end the same way and leave the same files."""
    from .simfs import SimFS
    from .realfs import RealFS
    outs = []
    for factory in (SimFS, RealFS):
        fs = build_fs(scen, factory)
        x = asmsim.run_cli(fs, scen['argv'], core.EventLog(0))
        tree = {p: d for p, d in fs.files.items() if not p.startswith(core.REPO + '/')}
        outs.append((x['outcome'], x['code'], (x['msg'] or '').replace('\n', ' | ')[:300], tree))
    a, b = outs
    if a[:2] != b[:2] or a[3] != b[3] or a[2] != b[2]:
        which = 'outcome' if a[:2] != b[:2] else ('files' if a[3] != b[3] else 'message')
        res.observe('xval:DISAGREE:' + which)
        res.events_extra = 'sim=%r real=%r' % (a[:3], b[:3])
    else:
        res.hit('xval:sim-and-real-agree')


@asmsim.with_fallback
def run_scenario(scen, keep_events=False):
    res = core.Result()
    log = core.EventLog(keep=600 if keep_events else 0)
    if scen.get('xval') and asmsim.BACKEND == 'sim':
        cross_validate(scen, res)
    fs = build_fs(scen)
    before = dict(fs.files)
    paths = scen['paths']
    inject = scen.get('inject')
    x = asmsim.run_cli(fs, scen['argv'], log, inject=inject)
    outcome = x['outcome']
    opts = scen['opts']
    failed = outcome != 'ok'
    pre_present = [k for k in ('out', 'labels', 'hex', 'stale_hex') if paths.get(k) and paths[k] in before]
    if scen.get('pre_hex'):
        res.hit('pre:output-already-identical')
    if opts['compress']:
        res.hit('opt:compress')
    if opts['verbose']:
        res.hit('opt:verbose')
    if opts['defs']:
        res.hit('opt:include-definitions')
    injected_fired = False
    if inject:
        if inject['kind'] == 'line' and outcome == 'crash':
            res.hit('inject:line-fired')
            injected_fired = True
        if inject['kind'] == 'pass' and x['inject_fired']:
            res.hit('inject:pass-fired')
            res.hit('injectpass:%s:%s:%s' % (inject['pass'], inject['when'], inject['exc']))
            injected_fired = True
    if x.get('shim_gap'):
        res.observe('shim-gap')
    fs_fault_fired = bool(fs.fired)
    for op, p, kind in fs.fired:
        res.hit('fsfault:%s:%s' % (op, kind))

    # classify the failure
    write_phase = False
    if failed:
        after_assemble = x['assemble_returned_seq'] is not None
        if after_assemble and (fs_fault_fired or x['exc'] in ('FileNotFoundError', 'OSError', 'PermissionError', 'IsADirectoryError', 'NotADirectoryError')):
            write_phase = True          # a tool that writes in place cannot keep a half-written file untouched: observation
        if after_assemble and opts['hex'] in HEX_OBS:
            write_phase = True          # offsets with no Intel HEX representation: outside the statement
        if x['pass']:
            res.hit('failpass:' + x['pass'])
        if not injected_fired and not write_phase:
            if x['assemble_entered_seq'] is None:
                res.hit('fail:cli-validation')
            else:
                res.hit('fail:natural')

    optsig = '%s%s%s%s%s' % ('c' if opts['compress'] else '', 'l' if paths['labels'] else '', 'h' if paths['hex'] else '',
                             'd' if opts['defs'] else '', 'v' if opts['verbose'] else '')
    if failed and write_phase:
        res.observe('write-phase-failure:%s' % (x['exc'] or outcome))
        changed = [k for k in ('out', 'labels', 'hex') if paths.get(k) and fs.files.get(paths[k]) != before.get(paths[k])]
        if changed:
            res.observe('write-phase-failure-left-partial:' + '+'.join(changed))
    elif failed:
        # a run that fails exits non-zero and leaves any previously existing output, label and hex files untouched
        for k in ('out', 'labels', 'hex', 'stale_hex'):
            p = paths.get(k)
            if not p:
                continue
            if fs.files.get(p) != before.get(p):
                was = 'existed' if p in before else 'absent'
                now = 'missing' if p not in fs.files else '%d bytes' % len(fs.files[p])
                stage = x['pass'] or ('cli' if x['assemble_entered_seq'] is None or x['assemble_returned_seq'] is not None else 'assemble')
                res.violate('clobbered-on-failure', '%s:%s' % (k, 'after-assemble' if x['assemble_returned_seq'] is not None else 'during-assemble'),
                            'run failed (%s %s, stage %s) but the %s file %s (%s before) is now %s; argv=%r'
                            % (outcome, (x['msg'] or '')[:80].replace('\n', ' | '), stage, k, p, was, now, scen['argv']))
        if pre_present:
            res.hit('fail:with-preexisting-files')
            res.nontrivial = True
    # exit status must agree with what the assembler says about the program
    if not failed:
        ref_fs = asmsim.make_fs(before, scen['dirs'], cwd=scen['cwd'])
        inc = list(opts['inc']) + ([asmsim.DEFINITIONS_DIR] if opts['defs'] else [])
        ref = asmsim.run_api(ref_fs, {'target': scen['input'], 'compress': opts['compress'], 'include_dirs': inc}, core.EventLog(0))
        if scen.get('bad_cli'):
            # whether an unusable -i directory or a missing input is fatal is the tool's decision; if it carries on, the
            # ordinary success oracle below judges what it wrote against the API on the same input
            res.observe('bad-cli-accepted:' + scen['bad_cli'])
        if inject and inject['kind'] == 'pass' and x['inject_fired']:
            res.violate('exit-zero-on-failure', 'injected', 'a failure was raised inside %s but the run exited 0' % inject['pass'])
        elif not ref['ok']:
            res.violate('exit-zero-on-failure', 'program-refused', 'the assembler refuses this program through the API (%s: %s) but the CLI exited 0; argv=%r'
                        % (ref['exc'], (ref['msg'] or '')[:80], scen['argv']))
        else:
            want = bytes.fromhex(ref['bytes'])
            got = fs.files.get(paths['out'])
            if got != want:
                res.violate('wrong-output', 'binary', '-o file %s holds %s, API gives %d bytes %s; argv=%r'
                            % (paths['out'], 'nothing' if got is None else '%d bytes %s' % (len(got), got[:12].hex()), len(want), want[:12].hex(), scen['argv']))
            if paths['labels']:
                txt = fs.files.get(paths['labels'])
                parsed, nlines = (None, 0) if txt is None else parse_labels_file(txt.decode('utf-8', 'replace'), set(ref['labels']))
                if parsed is None or parsed != ref['labels'] or nlines != len(ref['labels']):
                    res.violate('wrong-output', 'labels', '-l file %s does not hold one line per label with its final address: file=%r api=%r'
                                % (paths['labels'], None if txt is None else txt[:120], ref['labels']))
                res.hit('ok:labels-checked')
            else:
                # no -l: a labels file must not appear out of nowhere (nothing to check)
                pass
            if paths['hex'] and opts['hex'] in HEX_BAD:
                # the tool accepted an offset spelling that Python's int(x, 0) rejects: outside the quantifier (which reading is meant?)
                res.observe('unparsable-hex-offset-accepted:%s' % opts['hex'])
            elif paths['hex'] and opts['hex'] not in HEX_OBS:
                txt = fs.files.get(paths['hex'])
                off = int(opts['hex'], 0)
                try:
                    mem = None if txt is None else ihex.decode(txt.decode('ascii', 'replace'))
                except ihex.HexError as e:
                    mem = 'malformed: %s' % e
                exp = {off + i: b for i, b in enumerate(want)}
                if mem != exp:
                    res.violate('wrong-output', 'hex', '.hex file does not decode to the program at offset %s (%s); argv=%r'
                                % (opts['hex'], 'missing' if mem is None else (mem if isinstance(mem, str) else '%d bytes decoded, first addr %s' % (len(mem), min(mem) if mem else None)), scen['argv']))
                res.hit('ok:hex-checked')
                if want and (off >> 16) != ((off + len(want) - 1) >> 16):
                    res.hit('ok:hex-straddles-64k')
            elif paths['hex']:
                res.observe('hex-offset-unrepresentable-exit-0')
            res.hit('ok:outputs-checked')
            res.nontrivial = True
    if fs_fault_fired and res.viol and not failed:
        # write-phase I/O fault swallowed by the tool (bin2hex returns 1, cli_main ignores it): outside C17's crash points
        for v in res.viol:
            res.observe('write-fault-then-exit-0:%s:%s' % (v['cls'], v['key']))
        res.viol = []
    res.hit('ended:' + outcome)
    res.sig = '%s|%s|%s|%s|%s' % (outcome, x['pass'] or ('inj' if injected_fired else '-'),
                                 (inject or {}).get('kind', 'none') + ':' + str((inject or {}).get('pass', '')) + ':' + str((inject or {}).get('when', '')),
                                 optsig, '+'.join(pre_present))
    res.digest = log.digest()
    res.steps = log.seq
    if keep_events:
        res.events = log.events
    return res


# --------------------------------------------------------------------------
# minimisation

def shrink(scen):
    # fewer options
    argv = scen['argv']
    for flag in ('-v', '--verbose', '-c', '--compress', '--include-definitions'):
        if flag in argv:
            c = copy.deepcopy(scen)
            c['argv'].remove(flag)
            if flag in ('-c', '--compress'):
                c['opts']['compress'] = False
            if flag in ('-v', '--verbose'):
                c['opts']['verbose'] = False
            if flag == '--include-definitions':
                c['opts']['defs'] = False
            yield c
    for flag, key in (('-l', 'labels'), ('--labels', 'labels')):
        if flag in argv:
            c = copy.deepcopy(scen)
            i = c['argv'].index(flag)
            del c['argv'][i:i + 2]
            c['paths']['labels'] = None
            c['pre'].pop('labels', None)
            yield c
    for key in list(scen.get('pre') or {}):
        c = copy.deepcopy(scen)
        del c['pre'][key]
        yield c
    if scen.get('inject'):
        c = copy.deepcopy(scen)
        c['inject'] = None
        yield c
    if scen.get('fs_faults'):
        c = copy.deepcopy(scen)
        c['fs_faults'] = []
        yield c
    # fewer decoys / files / lines
    tree = scen['tree']
    if tree.get('decoys'):
        c = copy.deepcopy(scen)
        c['tree']['decoys'] = {}
        yield c
    for p in sorted(tree['files']):
        if p == tree['main']:
            continue
        c = copy.deepcopy(scen)
        del c['tree']['files'][p]
        # also drop include lines that referred to it
        for q, t in c['tree']['files'].items():
            c['tree']['files'][q] = '\n'.join(l for l in t.split('\n') if posixpath.basename(p) not in l or not l.lower().startswith('include'))
        yield c
    for p in sorted(tree['files']):
        lines = tree['files'][p].split('\n')
        if len(lines) <= 1:
            continue
        step = max(1, len(lines) // 2)
        while step >= 1:
            for i in range(0, len(lines), step):
                c = copy.deepcopy(scen)
                c['tree']['files'][p] = '\n'.join(lines[:i] + lines[i + step:])
                yield c
            step //= 2


SHRINK_BUDGET_S = 40.0


def extra_evidence(batch):
    inj = {k: v for k, v in batch.reach.items() if k.startswith('injectpass:')}
    return {'pass_boundary_crash_points_fired': len(inj), 'passes_failures_were_raised_from': sorted(k[9:] for k in batch.reach if k.startswith('failpass:')),
            'fault_kinds': 'planted faulty source lines (natural failures per pass), injected AssemblerError / foreign exception at pass entry+exit, '
                           'line-level teardown inside assemble() (SimCrash), CLI validation failures (missing input, invalid -i, unparsable --hex-offset), '
                           'write-phase I/O faults (ENOSPC/EIO/EACCES, missing output dir: observations only)'}
