"""Determinism self-test: the same VERIF_SEED must give the same per-run event-log digests
  - twice in a row,
  - in fresh interpreters under PYTHONHASHSEED 0, 1 and random,
  - with 1, 4 and 16 workers,
for every engine.  A sample of each property's plan is taken with --stride so that every job kind is represented.

  selftest/determinism.py [--props C18,C19,...] [--seeds 0,1,2] [--target-runs 300]
Exit 0 if every pair agrees; prints the first differing run otherwise (exit 1).
"""
import argparse
import json
import os
import subprocess
import sys
import tempfile

VERIF = os.path.dirname(os.path.dirname(os.path.abspath(__file__)))
PROPS = ['C10', 'C14', 'C15', 'C16', 'C17', 'C18', 'C19']


def run(prop, seed, target, workers, hashseed, out):
    env = dict(os.environ, VERIF_SEED=str(seed), PYTHONHASHSEED=hashseed, PYTHONDONTWRITEBYTECODE='1',
               VERIF_EVIDENCE_DIR=os.path.dirname(out), VERIF_REPLAY_DIR=os.path.dirname(out))
    p = subprocess.run(['/venv/bin/python', '-B', os.path.join(VERIF, 'sim', 'main.py'), prop, '--target-runs', str(target), '--workers', str(workers),
                        '--dump-digests', out, '--no-verify-replay'], env=env, capture_output=True, text=True, timeout=1800)
    if not os.path.exists(out):
        raise SystemExit('run failed: %s %s\n%s' % (prop, p.returncode, (p.stdout + p.stderr)[-1500:]))
    with open(out) as f:
        return json.load(f)


def main():
    ap = argparse.ArgumentParser()
    ap.add_argument('--props', default=','.join(PROPS))
    ap.add_argument('--seeds', default='0,1')
    ap.add_argument('--target-runs', type=int, default=300)
    ap.add_argument('--json')
    args = ap.parse_args()
    tmp = tempfile.mkdtemp(prefix='bbverif-det-')
    pairs = 0
    bad = 0
    report = {}
    try:
        for prop in args.props.split(','):
            stride = args.target_runs
            for seed in [int(x) for x in args.seeds.split(',')]:
                ref = run(prop, seed, stride, 16, '0', os.path.join(tmp, 'ref.json'))
                configs = [('again', 16, '0'), ('hashseed1', 16, '1'), ('hashseed-random', 16, 'random'), ('workers1', 1, '0'), ('workers4', 4, '0')]
                for name, w, hs in configs:
                    got = run(prop, seed, stride, w, hs, os.path.join(tmp, 'got.json'))
                    n = len(ref['runs'])
                    pairs += n
                    if got['runs'] != ref['runs']:
                        bad += 1
                        diff = next(((a, b) for a, b in zip(ref['runs'], got['runs']) if a != b), (len(ref['runs']), len(got['runs'])))
                        print('DIFF %s seed=%d config=%s: first differing run %r vs %r' % (prop, seed, name, diff[0], diff[1]))
                    else:
                        print('same %s seed=%d config=%-16s %d runs digest %s' % (prop, seed, name, n, got['digest']))
                    sys.stdout.flush()
                report['%s:%d' % (prop, seed)] = {'runs': len(ref['runs']), 'digest': ref['digest']}
    finally:
        import shutil
        shutil.rmtree(tmp, ignore_errors=True)
    print('determinism: %d run-pairs compared, %d configuration(s) differed' % (pairs, bad))
    if args.json:
        with open(args.json, 'w') as f:
            json.dump({'pairs_compared': pairs, 'configs_differing': bad, 'by_prop_seed': report}, f, indent=1)
    return 1 if bad else 0


if __name__ == '__main__':
    sys.exit(main())
