"""RealFS - the same scenario interface as SimFS, backed by a private temp directory on the real file system.

Used (a) for cross-validation of SimFS and (b) as the automatic fallback when the code under test reaches the file
system in a way the SimFS shim does not see (pathlib, io.open, os.scandir, ...): such a property-preserving refactor
must neither raise an alarm nor pass vacuously.  No write-time fault injection is possible here; `fired` stays empty.
Virtual absolute paths (/w/...) live under self.root; the working directory is changed for the duration of a run.
"""
import os
import posixpath
import shutil
import tempfile
import weakref

_BASE = None


def base_dir():
    """One scratch directory per check run: created by the first process that needs it (normally the parent, during the
    backend probe), inherited by forked workers and children, removed by the creating process at exit."""
    global _BASE
    if _BASE is None or not os.path.isdir(_BASE):
        env = os.environ.get('VERIF_REAL_BASE')
        if env and os.path.isdir(env):
            _BASE = env
        else:
            parent = '/dev/shm' if os.path.isdir('/dev/shm') and os.access('/dev/shm', os.W_OK) else None
            _BASE = tempfile.mkdtemp(prefix='bbverif-real-', dir=parent)
            os.environ['VERIF_REAL_BASE'] = _BASE
            import atexit
            atexit.register(_cleanup_if_owner, _BASE, os.getpid())
    return _BASE


def _cleanup_if_owner(path, pid):
    if os.getpid() == pid:
        shutil.rmtree(path, ignore_errors=True)


def cleanup_base():
    global _BASE
    if _BASE and os.path.isdir(_BASE):
        shutil.rmtree(_BASE, ignore_errors=True)
    _BASE = None


class _FilesView:
    """dict-like view of the tree (virtual path -> bytes), read from disk on demand."""

    def __init__(self, fs):
        self.fs = fs

    def _scan(self):
        out = {}
        root = self.fs.root
        for dp, dn, fn in os.walk(root):
            for name in fn:
                full = os.path.join(dp, name)
                try:
                    with open(full, 'rb') as f:
                        out[full[len(root):]] = f.read()
                except OSError:
                    pass
        return out

    def get(self, path, default=None):
        full = self.fs.root + posixpath.normpath(path)
        if os.path.isfile(full):
            with open(full, 'rb') as f:
                return f.read()
        return default

    def __contains__(self, path):
        return os.path.isfile(self.fs.root + posixpath.normpath(path))

    def __getitem__(self, path):
        v = self.get(path)
        if v is None:
            raise KeyError(path)
        return v

    def __iter__(self):
        return iter(self._scan())

    def items(self):
        return self._scan().items()

    def keys(self):
        return self._scan().keys()

    def pop(self, path, default=None):
        v = self.get(path, default)
        try:
            os.unlink(self.fs.root + posixpath.normpath(path))
        except OSError:
            pass
        return v

    def copy(self):
        return self._scan()


class RealFS:
    is_real = True

    def __init__(self, files=None, dirs=None, cwd='/', log=None, faults=None):
        self.root = tempfile.mkdtemp(prefix='t-', dir=base_dir())
        self._fin = weakref.finalize(self, shutil.rmtree, self.root, True)
        self.cwd = cwd
        self.log = log
        self.faults = list(faults or [])
        self.fired = []
        self.op_counts = {}
        for d in dirs or ():
            self.mkdirs(d)
        self.mkdirs(cwd)
        for p, data in (dict(files) if files is not None else {}).items():
            self.put(p, data)
        self.files_view = _FilesView(self)

    @property
    def files(self):
        return self.files_view

    @files.setter
    def files(self, mapping):
        # restore the tree to exactly `mapping`
        cur = self.files_view._scan()
        for p in cur:
            if p not in mapping:
                try:
                    os.unlink(self.root + p)
                except OSError:
                    pass
        for p, data in mapping.items():
            if cur.get(p) != data:
                self.put(p, data)

    @property
    def dirs(self):
        out = set()
        for dp, dn, fn in os.walk(self.root):
            out.add(dp[len(self.root):] or '/')
        return out

    def mkdirs(self, d):
        os.makedirs(self.root + posixpath.normpath(d), exist_ok=True)

    def put(self, path, data):
        if isinstance(data, str):
            data = data.encode('utf-8')
        full = self.root + posixpath.normpath(path)
        os.makedirs(os.path.dirname(full), exist_ok=True)
        with open(full, 'wb') as f:
            f.write(data)

    def abspath(self, path):
        return posixpath.normpath(posixpath.join(self.cwd, path))

    def real(self, path):
        """Translate an absolute virtual path to its real location (relative paths are left alone)."""
        if isinstance(path, str) and (path == '/w' or path.startswith('/w/')):
            return self.root + path
        return path

    def strip(self, text):
        return text.replace(self.root, '') if isinstance(text, str) else text

    def close(self):
        self._fin()
