"""C14 - include is textual splicing, resolved independently of the working directory."""
import copy
import itertools
import posixpath

from . import core, asmsim, progs
from .simfs import SimFS

ID = 'C14'
LEVEL = 'exploration'
RULE = ('each run builds one include tree on SimFS (depth 0-4; include lines first/middle/last, quoted, commented, upper-case, sub/ and ../ '
        'forms; files adjacent, in sub/parent directories and in -i directories; the same file included twice; same-named decoy files in the '
        'cwd candidates and unrelated directories; deliberately ambiguous adjacent/-i twins) and assembles it under every combination of '
        'cwd x main-path spelling x -i spelling x compress through the API, plus CLI invocations; oracle = an independent splicer flattens '
        'the tree (every admissible choice for ambiguous includes) and the flattened file is assembled by path; all variants must equal a '
        'flattening and each other.  non-trivial = tree has >= 1 include and the flattening assembles; distinct = include-graph shapes: the sorted '
        'multiset of edges (depth of the includer, placement kind, position class) + ambiguity + decoys + outcome')
COMPONENTS = {'real': ['bronzebeard/asm.py (read_lines include search and recursion, all passes, cli_main -i handling)'],
              'stub': ['file system and cwd (SimFS)', 'reference splicer (sim/progs.py flatten, 40 lines, independent of asm.py)']}
ASSUMPTIONS = ['include lines are written from column 0 as in the documentation', 'relative -i spellings are generated so that they denote the same directory from the chosen cwd',
               'where a name exists both adjacent and in an -i directory either choice is accepted, but all cwd/spelling variants must agree']
REQUIRED_REACH = {'quick': ['tree:with-includes-verdict', 'variant:cwd-unrelated', 'variant:cli'], 'thorough': ['tree:with-includes-verdict', 'variant:cwd-unrelated', 'variant:cli']}
EXPECTED_REACH = ['tree:depth>=3', 'tree:same-file-twice', 'tree:ambiguous', 'tree:decoys', 'tree:inc-dir-used', 'tree:parent-form', 'tree:sub-form',
                  'tree:quoted', 'tree:commented', 'tree:uppercase']
CHUNK = 20
CWDS = ['/w/proj', '/w/proj/sub', '/w', '/w/elsewhere']


def worker_init():
    asmsim.init()


def parent_init(tier, seed):
    asmsim.init()


def plan(tier, seed):
    return [{'k': 'r'} for _ in range(1500 if tier == 'quick' else 120000)]


def add_twin(r, tree):
    """Make one include deliberately ambiguous: the same name also exists in an -i directory."""
    if not tree['inc_dirs']:
        return
    incs = [i for i in tree['includes'] if not any(j['from'] == i['target'] for j in tree['includes'])
            and not i['written'].startswith('..') and i['target'] != tree['main']]
    r.shuffle(incs)
    for inc in incs:
        d = r.choice(tree['inc_dirs'])
        twin = posixpath.normpath(posixpath.join(d, inc['written']))
        if twin in tree['files'] or twin == inc['target']:
            continue
        # the twin must not become a candidate of any *other* include
        clash = False
        for j in tree['includes']:
            if j is not inc and twin in progs._cands(tree['inc_dirs'], posixpath.dirname(j['from']), j['written']):
                if not (j['from'] == inc['from'] and j['written'] == inc['written']):
                    clash = True
        if clash:
            continue
        tree['files'][twin] = tree['files'][inc['target']].rstrip('\n') + '\n    addi x0, x0, 0\n    xori t0, t0, 1\n'
        tree.setdefault('twins', []).append(twin)
        tree['dirs'].append(posixpath.dirname(twin))
        return


def make_scenario(spec, seed, idx):
    r = core.rng_for(ID, seed, idx)
    tree = progs.gen_tree(r, max_depth=r.choice((1, 2, 3, 4, 4, 6)), nfiles=r.choice((None, None, None, 6, 8)))
    if r.random() < 0.04:
        # a wide tree: one tiny leaf included 65-90 times from the main file (any limit on the NUMBER of includes would show)
        leaf = posixpath.dirname(tree['main']) + '/pad.inc'
        if leaf not in tree['files'] and not any(leaf in progs._cands(tree['inc_dirs'], posixpath.dirname(i['from']), i['written']) for i in tree['includes']):
            tree['files'][leaf] = '    nop\n'
            n = r.randint(65, 90)
            crlf = '\r\n' in tree['files'][tree['main']]
            body = tree['files'][tree['main']].replace('\r\n', '\n').rstrip('\n')
            body += '\n' + '\n'.join(['include pad.inc'] * n) + '\n'
            tree['files'][tree['main']] = body.replace('\n', '\r\n') if crlf else body
            tree['includes'].extend({'from': tree['main'], 'written': 'pad.inc', 'target': leaf} for _ in range(n))
    if r.random() < 0.03:
        # a long, perfectly legitimate chain: main -> c1.inc -> c2.inc -> ... (33-45 levels)
        d = posixpath.dirname(tree['main'])
        depth_n = r.randint(33, 45)
        if not any(posixpath.basename(p).startswith('chain') for p in tree['files']):
            for k in range(1, depth_n + 1):
                nxt = 'include chain%d.inc\n' % (k + 1) if k < depth_n else ''
                tree['files'][d + '/chain%d.inc' % k] = '    addi x0, x0, %d\n%s' % (k % 7, nxt)
                tree['includes'].append({'from': (d + '/chain%d.inc' % (k - 1)) if k > 1 else tree['main'], 'written': 'chain%d.inc' % k, 'target': d + '/chain%d.inc' % k})
            crlf = '\r\n' in tree['files'][tree['main']]
            body = tree['files'][tree['main']].replace('\r\n', '\n').rstrip('\n') + '\ninclude chain1.inc\n'
            tree['files'][tree['main']] = body.replace('\n', '\r\n') if crlf else body
    if r.random() < 0.2:
        add_twin(r, tree)
    if r.random() < 0.8:
        progs.add_decoys(r, tree, heavy=r.random() < 0.6)
    variants = []
    for cwd, mabs, iabs, comp in itertools.product(CWDS, (True, False), (True, False), (False, True)):
        if not tree['inc_dirs'] and not iabs:
            continue
        variants.append({'via': 'api', 'cwd': cwd, 'main_abs': mabs, 'inc_abs': iabs, 'compress': comp})
    for _ in range(4):
        variants.append({'via': 'cli', 'cwd': r.choice(CWDS), 'main_abs': r.random() < 0.5, 'inc_abs': r.random() < 0.5, 'compress': r.random() < 0.5,
                         'dotdot': r.random() < 0.3})
    for _ in range(3):
        variants.append({'via': 'api', 'cwd': r.choice(CWDS), 'main_abs': r.random() < 0.5, 'inc_abs': r.random() < 0.5, 'compress': r.random() < 0.5, 'dotdot': True})
    if tree['inc_dirs']:
        # the same search path given redundantly: every -i directory twice (cannot change what is found)
        for via in ('api', 'cli'):
            variants.append({'via': via, 'cwd': r.choice(CWDS), 'main_abs': True, 'inc_abs': r.random() < 0.5, 'compress': r.random() < 0.5, 'inc_twice': True})
    return {'tree': tree, 'variants': variants}


def spell(path, cwd, absolute):
    return path if absolute else posixpath.relpath(path, cwd)


def outcome_key(out):
    if out['ok']:
        return ('ok', out['bytes'], tuple(sorted(out['labels'].items())), tuple(sorted((k, v) for k, v in (out['constants'] or {}).items())))
    return ('refused', out.get('exc'))


def run_variant(files, tree, v, log):
    dirs = list(tree['dirs']) + [v['cwd']]
    inc = [spell(d, v['cwd'], v['inc_abs']) for d in tree['inc_dirs']]
    if v.get('inc_twice'):
        inc = inc + [spell(d, v['cwd'], not v['inc_abs']) for d in tree['inc_dirs']]
    mpath = tree['main']
    if v.get('dotdot'):
        # the same file reached through a directory and back (every component exists)
        d = posixpath.dirname(mpath)
        mpath = d + '/../' + posixpath.basename(d) + '/' + posixpath.basename(mpath)
    main = mpath if v['main_abs'] else posixpath.join(posixpath.relpath(posixpath.dirname(tree['main']), v['cwd']), '..', posixpath.basename(posixpath.dirname(tree['main'])), posixpath.basename(mpath)) if v.get('dotdot') else spell(tree['main'], v['cwd'], v['main_abs'])
    if v['via'] == 'api':
        fs = asmsim.make_fs(files, dirs, cwd=v['cwd'])
        return asmsim.run_api(fs, {'target': main, 'compress': v['compress'], 'include_dirs': inc}, log)
    fs = asmsim.make_fs(files, dirs + ['/w/outdir'], cwd=v['cwd'])
    argv = (['-c'] if v['compress'] else [])
    for d in inc:
        argv += ['-i', d]
    argv += ['-o', '/w/outdir/o.bin', '-l', '/w/outdir/l.txt', main]
    x = asmsim.run_cli(fs, argv, log)
    if x['outcome'] != 'ok':
        return {'ok': False, 'exc': x['exc'] or x['outcome'], 'msg': x['msg']}
    labels = {}
    for line in fs.files.get('/w/outdir/l.txt', b'').decode().split('\n'):
        if line.strip():
            k, val = line.split()
            labels[k] = int(val, 0)
    return {'ok': True, 'bytes': fs.files.get('/w/outdir/o.bin', b'').hex(), 'labels': labels, 'constants': None}


@asmsim.with_fallback
def run_scenario(scen, keep_events=False):
    res = core.Result()
    log = core.EventLog(keep=300 if keep_events else 0)
    tree = scen['tree']
    files = progs.tree_files_bytes(tree)
    main = tree['main']
    nincl = len(tree['includes'])
    # reach
    if tree.get('decoys'):
        res.hit('tree:decoys')
    if tree.get('twins'):
        res.hit('tree:ambiguous')
    targets = [i['target'] for i in tree['includes']]
    if len(set(targets)) < len(targets):
        res.hit('tree:same-file-twice')
    for i in tree['includes']:
        if i['written'].startswith('../'):
            res.hit('tree:parent-form')
        elif '/' in i['written']:
            res.hit('tree:sub-form')
        if posixpath.dirname(i['target']) in tree['inc_dirs']:
            res.hit('tree:inc-dir-used')
    alltext = '\n'.join(tree['files'].values())
    if 'include "' in alltext or "include '" in alltext:
        res.hit('tree:quoted')
    if '# pulls in' in alltext:
        res.hit('tree:commented')
    if 'INCLUDE ' in alltext:
        res.hit('tree:uppercase')

    # reference: flatten under every admissible choice for ambiguous includes
    amb = set()
    try:
        progs.flatten(files, tree['inc_dirs'], main, None, amb)
    except (FileNotFoundError, RecursionError) as e:
        res.observe('flatten-impossible:%s' % type(e).__name__)
        amb = None
    refs = {False: set(), True: set()}
    verdict_possible = amb is not None
    depth = 0
    if verdict_possible:
        amb = sorted(amb)
        choices = list(itertools.product(*[range(n) for (_, _, n) in amb])) if amb else [()]
        if len(choices) > 8:
            choices = choices[:8]
        for ch in choices:
            choice = {(p, name): ch[i] for i, (p, name, n) in enumerate(amb)}
            flat = progs.flatten(files, tree['inc_dirs'], main, choice)
            ffiles = dict(files)
            fpath = posixpath.dirname(main) + '/__flat__.asm'
            ffiles[fpath] = ('\n'.join(flat) + '\n').encode('utf-8')
            for comp in (False, True):
                fs = asmsim.make_fs(ffiles, tree['dirs'], cwd=posixpath.dirname(main))
                out = asmsim.run_api(fs, {'target': fpath, 'compress': comp, 'include_dirs': []}, log)
                if out['ok']:
                    refs[comp].add(outcome_key(out)[1:])
        if not refs[False] and not refs[True]:
            verdict_possible = False
            res.observe('flattened-program-refused')
    # depth of the include tree
    child = {}
    for i in tree['includes']:
        child.setdefault(i['from'], []).append(i['target'])

    def dep(p, seen=()):
        if p in seen:
            return 0
        return 1 + max([dep(c, seen + (p,)) for c in child.get(p, [])] or [0])
    depth = dep(main) - 1
    if depth >= 3:
        res.hit('tree:depth>=3')

    seen_by_comp = {False: {}, True: {}}
    for v in scen['variants']:
        out = run_variant(files, tree, v, log)
        res.hit('variant:' + v['via'])
        if v['cwd'] == '/w/elsewhere':
            res.hit('variant:cwd-unrelated')
        if not verdict_possible:
            continue
        comp = v['compress']
        where = '%s:%s' % (v['via'], 'cwd-is-main-dir' if v['cwd'] == posixpath.dirname(main) else 'cwd-elsewhere')
        vdesc = 'via=%s cwd=%s main=%s -i=%s compress=%s' % (v['via'], v['cwd'], 'abs' if v['main_abs'] else 'rel', 'abs' if v['inc_abs'] else 'rel', comp)
        if not refs[comp]:
            continue
        if not out['ok']:
            res.violate('refused-but-flattened-assembles', where, 'tree refused (%s: %s) although the flattened program assembles; %s'
                        % (out.get('exc'), (out.get('msg') or '')[:100].replace('\n', ' | '), vdesc))
            continue
        key = outcome_key(out)[1:]
        cmpkey = key if v['via'] == 'api' else key[:2]
        allowed = refs[comp] if v['via'] == 'api' else set(k[:2] for k in refs[comp])
        if cmpkey not in allowed:
            what = 'bytes' if cmpkey[0] not in set(k[0] for k in allowed) else ('labels' if cmpkey[1] not in set(k[1] for k in allowed) else 'constants')
            res.violate('differs-from-flattened', where + ':' + what, '%s differ from the flattened program; %s' % (what, vdesc))
            continue
        prev = seen_by_comp[comp].get(v['via'])
        if prev is not None and prev[0] != cmpkey:
            res.violate('cwd-dependent', v['via'], 'two variants of the same tree give different results: [%s] vs [%s]' % (prev[1], vdesc))
        elif prev is None:
            seen_by_comp[comp][v['via']] = (cmpkey, vdesc)
    if verdict_possible and nincl:
        res.hit('tree:with-includes-verdict')
        res.nontrivial = True
    elif verdict_possible:
        res.hit('tree:no-includes-verdict')
    kinds = sorted(set(('P' if i['written'].startswith('../') else 'S' if '/' in i['written'] else
                        'I' if posixpath.dirname(i['target']) in tree['inc_dirs'] else 'A') for i in tree['includes']))
    # shape of the include graph: for every include edge (depth of the includer, placement kind, line style, position class)
    fd = {main: 0}
    for _ in range(8):
        for i in tree['includes']:
            if i['from'] in fd:
                fd.setdefault(i['target'], fd[i['from']] + 1)
    edges = []
    for i in tree['includes']:
        src = tree['files'][i['from']].replace('\r', '').split('\n')
        pos = next((k for k, l in enumerate(src) if progs.parse_include_line(l) == i['written']), 0)
        posc = 'first' if pos == 0 else ('last' if pos >= len([l for l in src if l.strip()]) - 1 else 'mid')
        kind = 'P' if i['written'].startswith('../') else 'D' if '/../' in i['written'] else 'S' if '/' in i['written'] else 'I' if posixpath.dirname(i['target']) in tree['inc_dirs'] else 'A'
        edges.append((fd.get(i['from'], 9), kind, posc))
    res.sig = 'd%d|n%d|%s|amb%d|dec%d|%s' % (depth, nincl, ','.join('%d%s%s' % e for e in sorted(edges)), len(tree.get('twins') or []), int(bool(tree.get('decoys'))),
                                             'verdict' if verdict_possible else 'noverdict')
    res.digest = log.digest()
    res.steps = log.seq
    if keep_events:
        res.events = log.events
    return res


def shrink(scen):
    # fewer variants first (keeps replays readable)
    vs = scen['variants']
    if len(vs) > 2:
        half = len(vs) // 2
        for part in (vs[:half], vs[half:]):
            c = copy.deepcopy(scen)
            c['variants'] = part
            yield c
    if len(vs) > 1:
        for i in range(len(vs)):
            c = copy.deepcopy(scen)
            del c['variants'][i]
            yield c
    tree = scen['tree']
    if tree.get('decoys'):
        c = copy.deepcopy(scen)
        c['tree']['decoys'] = {}
        yield c
        for p in sorted(tree['decoys']):
            c = copy.deepcopy(scen)
            del c['tree']['decoys'][p]
            yield c
    # drop leaf files together with their include lines
    for inc in tree['includes']:
        if any(j['from'] == inc['target'] for j in tree['includes']):
            continue
        c = copy.deepcopy(scen)
        t = c['tree']
        t['includes'] = [j for j in t['includes'] if not (j['from'] == inc['from'] and j['written'] == inc['written'])]
        src = t['files'][inc['from']].split('\n')
        src = [l for l in src if progs.parse_include_line(l) != inc['written']]
        t['files'][inc['from']] = '\n'.join(src)
        if not any(j['target'] == inc['target'] for j in t['includes']):
            t['files'].pop(inc['target'], None)
        yield c
    # drop single non-include lines
    for p in sorted(tree['files']):
        lines = tree['files'][p].split('\n')
        step = max(1, len(lines) // 2)
        while step >= 1:
            for i in range(0, len(lines), step):
                chunk = lines[i:i + step]
                if any(progs.parse_include_line(l) for l in chunk):
                    continue
                c = copy.deepcopy(scen)
                c['tree']['files'][p] = '\n'.join(lines[:i] + lines[i + step:])
                yield c
            step //= 2


SHRINK_BUDGET_S = 60.0
