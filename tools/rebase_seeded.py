"""Re-base seeded patches that no longer apply to /repo HEAD (because a later fix: commit touched the same lines).
For each seeded/<id> whose patch.diff fails `git apply --check` on HEAD: apply it at its base commit in a scratch
worktree, commit, cherry-pick onto HEAD (3-way), and write the resulting diff as patch.diff (original kept as
patch.orig.diff).  Conflicts are reported and left alone."""
import json, os, subprocess, sys, shutil, tempfile

BASES = {'c18-a': 'c015a47', 'c19-a': 'c015a47', 'c10-a': '1648f79', 'c14-a': '1648f79', 'c17-a': '1648f79', 'c16-a': '1648f79',
         'c15-a': '12807d5', 'c18-b': '12807d5', 'c19-b': '12807d5'}

def sh(cmd, cwd):
    p = subprocess.run(cmd, cwd=cwd, shell=True, capture_output=True, text=True)
    return p.returncode, p.stdout + p.stderr

def main():
    head = sh('git rev-parse --short HEAD', '/repo')[1].strip()
    sd = '/verif/seeded'
    for name in sorted(os.listdir(sd)):
        d = os.path.join(sd, name)
        patch = os.path.join(d, 'patch.diff')
        meta = json.load(open(os.path.join(d, 'meta.json')))
        base = meta.get('base_commit') or BASES.get(name[:5])
        meta['base_commit'] = base
        rc, _ = sh('git apply --check %s' % patch, '/repo')
        if rc == 0:
            json.dump(meta, open(os.path.join(d, 'meta.json'), 'w'), indent=1)
            print('%-8s applies to %s' % (name, head))
            continue
        wt = tempfile.mkdtemp(prefix='bbrb-')
        os.rmdir(wt)
        try:
            sh('git worktree add -q --detach %s %s' % (wt, base), '/repo')
            rc, out = sh('git apply %s && git -c user.email=v@v -c user.name=v commit -qam seeded' % (os.path.join(d, 'patch.orig.diff') if os.path.exists(os.path.join(d, 'patch.orig.diff')) else patch), wt)
            if rc:
                print('%-8s cannot apply at base %s: %s' % (name, base, out[-200:])); continue
            c = sh('git rev-parse HEAD', wt)[1].strip()
            sh('git checkout -q --detach %s' % head, wt)
            rc, out = sh('git -c user.email=v@v -c user.name=v cherry-pick %s' % c, wt)
            if rc:
                print('%-8s CONFLICT rebasing onto %s: %s' % (name, head, out[-300:])); continue
            rc, diff = sh('git diff %s HEAD' % head, wt)
            if not os.path.exists(os.path.join(d, 'patch.orig.diff')):
                shutil.copy(patch, os.path.join(d, 'patch.orig.diff'))
            open(patch, 'w').write(diff)
            meta['rebased_onto'] = head
            json.dump(meta, open(os.path.join(d, 'meta.json'), 'w'), indent=1)
            print('%-8s rebased from %s onto %s' % (name, base, head))
        finally:
            sh('git worktree remove --force %s' % wt, '/repo')
            sh('git worktree prune', '/repo')

main()
