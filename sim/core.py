"""Core of the deterministic simulation harness.

One integer (VERIF_SEED) decides everything: job *i* of property *P* draws from
random.Random(sha256("P:seed:i")).  A job spec is turned into an explicit,
JSON-serialisable *scenario*; executing a scenario draws nothing further, so a
replay is a pure function of (scenario, code under the repo).

Exit codes: 0 held / 1 VIOLATION / 2 HARNESS-ERROR.
"""
import faulthandler
import hashlib
import json
import multiprocessing
import os
import random
import signal
import subprocess
import sys
import time
import traceback
from concurrent.futures import ProcessPoolExecutor

VERIF = os.path.dirname(os.path.dirname(os.path.abspath(__file__)))
REPO = os.path.abspath(os.environ.get('VERIF_REPO', '/repo'))
PYTHON = sys.executable
REPLAY_DIR = os.environ.get('VERIF_REPLAY_DIR') or os.path.join(VERIF, 'replays')
EVIDENCE_DIR = os.environ.get('VERIF_EVIDENCE_DIR') or os.path.join(VERIF, 'evidence')
FINDINGS_FILE = os.environ.get('VERIF_FINDINGS_FILE') or os.path.join(VERIF, 'known_findings.json')   # (override: self-tests only)

_real_time = time.time
_real_perf = time.perf_counter


class HarnessError(Exception):
    pass


def ensure_repo_on_path():
    """Make `import bronzebeard` resolve to the working tree under REPO."""
    if sys.path[0] != REPO:
        sys.path.insert(0, REPO)
    import bronzebeard
    f = os.path.abspath(bronzebeard.__file__)
    if not f.startswith(REPO + os.sep):
        raise HarnessError('bronzebeard imported from %s, expected under %s' % (f, REPO))


def tree_identity():
    out = {}
    for name in ('asm.py', 'dfu.py'):
        with open(os.path.join(REPO, 'bronzebeard', name), 'rb') as f:
            out[name] = hashlib.sha256(f.read()).hexdigest()[:16]
    return out


def rng_for(prop, seed, index, salt=''):
    h = hashlib.sha256(('%s:%d:%s:%s' % (prop, seed, index, salt)).encode()).digest()
    return random.Random(int.from_bytes(h[:8], 'big'))


def digest_of(obj):
    return hashlib.sha256(json.dumps(obj, sort_keys=True, default=repr).encode()).hexdigest()[:16]


class EventLog:
    """Append-only event log stamped with a global sequence number."""

    def __init__(self, keep=400):
        self.seq = 0
        self.keep = keep
        self.events = []
        self._h = hashlib.sha256()

    def add(self, *ev):
        self.seq += 1
        s = repr((self.seq,) + ev)
        self._h.update(s.encode('utf-8', 'backslashreplace'))
        if len(self.events) < self.keep:
            self.events.append(s)
        return self.seq

    def digest(self):
        return self._h.hexdigest()[:16]


class Result:
    """Outcome of one simulated run."""
    __slots__ = ('viol', 'obs', 'reach', 'sig', 'nontrivial', 'digest', 'simtime_us', 'steps', 'events', 'sample', 'events_extra')

    def __init__(self):
        self.viol = []       # [{'cls':..., 'key':..., 'msg':...}] verdict-relevant
        self.obs = {}        # observation counters (not verdicts)
        self.reach = {}      # reach counters (fired, not configured)
        self.sig = ''        # signature for distinctness
        self.nontrivial = False
        self.digest = ''
        self.simtime_us = 0
        self.steps = 0
        self.events = None
        self.sample = None

    def hit(self, name, n=1):
        self.reach[name] = self.reach.get(name, 0) + n

    def observe(self, name, n=1):
        self.obs[name] = self.obs.get(name, 0) + n

    def violate(self, cls, key, msg):
        self.viol.append({'cls': cls, 'key': key, 'msg': msg})

    def pack(self):
        return {'viol': self.viol, 'obs': self.obs, 'reach': self.reach, 'sig': self.sig,
                'nontrivial': self.nontrivial, 'digest': self.digest, 'simtime_us': self.simtime_us,
                'steps': self.steps}


# --------------------------------------------------------------------------
# hermetic execution: run a function in a forked child of this (pristine) process

def run_isolated(fn, *args, timeout=600):
    """Fork, run fn(*args) in the child, return its (picklable) result.  The calling process keeps whatever
    module state it had, so code under test that leaks state between calls cannot make results depend on which
    process happened to run which scenario."""
    import pickle
    import select
    r, w = os.pipe()
    sys.stdout.flush()
    sys.stderr.flush()
    pid = os.fork()
    if pid == 0:
        code = 0
        try:
            os.close(r)
            # no faulthandler watchdog here: it is a thread, and this child may fork again (a watchdog thread's lock
            # copied into a grandchild deadlocks its next dump_traceback_later).  SIGALRM's default action ends a stuck child.
            signal.alarm(int(timeout))
            try:
                out = ('ok', fn(*args))
            except BaseException as e:
                out = ('err', '%s: %s\n%s' % (type(e).__name__, e, traceback.format_exc()))
            data = pickle.dumps(out, protocol=pickle.HIGHEST_PROTOCOL)
            view = memoryview(data)
            while view:
                n = os.write(w, view[:1 << 20])
                view = view[n:]
        except BaseException:
            code = 3
        finally:
            os._exit(code)
    os.close(w)
    chunks = []
    deadline = _real_time() + timeout + 30
    try:
        while True:
            left = deadline - _real_time()
            if left <= 0:
                os.kill(pid, 9)
                raise HarnessError('isolated child exceeded %ds' % timeout)
            rd, _, _ = select.select([r], [], [], min(left, 5.0))
            if not rd:
                continue
            b = os.read(r, 1 << 20)
            if not b:
                break
            chunks.append(b)
    finally:
        os.close(r)
        try:
            os.waitpid(pid, 0)
        except ChildProcessError:
            pass
    data = b''.join(chunks)
    if not data:
        raise HarnessError('isolated child died without a result')
    kind, val = pickle.loads(data)
    if kind == 'err':
        raise HarnessError('isolated child raised: ' + val)
    return val


# --------------------------------------------------------------------------
# batch execution

_MODULE = None
_SEED = 0
_TIER = 'quick'


def _worker_init(modname, seed, tier):
    global _MODULE, _SEED, _TIER
    import importlib
    _MODULE = importlib.import_module(modname)
    _SEED = seed
    _TIER = tier
    if hasattr(_MODULE, 'worker_init'):
        _MODULE.worker_init()


def _chunk_body(cid, pairs):
    out = []
    for idx, spec in pairs:
        try:
            scen = _MODULE.make_scenario(spec, _SEED, idx)
            dbg = os.environ.get('VERIF_DEBUG_IDX')
            res = _MODULE.run_scenario(scen, keep_events=True) if dbg and int(dbg) == idx else _MODULE.run_scenario(scen)
            if dbg and int(dbg) == idx:
                with open('/tmp/verif-debug-%d-%d.json' % (idx, os.getpid()), 'w') as f:
                    json.dump({'digest': res.digest, 'events': res.events, 'reach': res.reach, 'obs': res.obs}, f, indent=0)
            p = res.pack()
            p['idx'] = idx
            if res.viol or (idx % 997 == 0):
                p['scenario'] = scen
            if res.viol:
                p['chunk_id'] = cid
            out.append(p)
        except BaseException as e:  # harness failure, never a verdict
            out.append({'idx': idx, 'harness_error': '%s: %s\n%s' % (type(e).__name__, e, traceback.format_exc()),
                        'spec': spec})
    return out


def _run_chunk(args):
    """Each chunk runs in a freshly forked child of a worker that never executes a scenario itself, so the process
    history a scenario sees is exactly the scenarios before it in its chunk (chunking is independent of the worker count)."""
    cid, pairs, cap = args
    return cid, run_isolated(_chunk_body, cid, pairs, timeout=cap)


class Batch:
    def __init__(self, module, tier, seed, workers=None, runs=None, stride=1, dump=None):
        self.m = module
        self.tier = tier
        self.seed = seed
        self.workers = workers or min(16, os.cpu_count() or 1)
        self.runs = runs
        self.stride = stride or 1
        self.dump = dump
        self.run_digests = []
        self.t0 = _real_perf()
        self.reach = {}
        self.obs = {}
        self.sigs = set()
        self.nontrivial_sigs = set()
        self.evals = 0
        self.steps = 0
        self.simtime_us = 0
        self.samples = []
        self.viol_groups = {}   # (cls,key) -> {'count', 'scenario', 'index', 'msg'}
        self.harness_errors = []
        self._h = hashlib.sha256()

    def fold(self, idx, p):
        if 'harness_error' in p:
            self.harness_errors.append((idx, p['harness_error'], p.get('spec')))
            return
        self.evals += 1
        self.steps += p['steps']
        self.simtime_us += p['simtime_us']
        for k, v in p['reach'].items():
            self.reach[k] = self.reach.get(k, 0) + v
        for k, v in p['obs'].items():
            self.obs[k] = self.obs.get(k, 0) + v
        sh = int.from_bytes(hashlib.blake2b(p['sig'].encode('utf-8', 'replace'), digest_size=8).digest(), 'big')   # 64-bit fingerprint: millions of runs
        self.sigs.add(sh)
        if p['nontrivial']:
            self.nontrivial_sigs.add(sh)
        self._h.update(p['digest'].encode())
        if self.dump:
            self.run_digests.append((idx, p['digest'], p['sig'][:60]))
        if 'scenario' in p and not p['viol'] and len(self.samples) < 3:
            self.samples.append(p['scenario'])
        for v in p['viol']:
            g = self.viol_groups.setdefault((v['cls'], v['key']), {'count': 0})
            g['count'] += 1
            if 'scenario' not in g:
                g.update(scenario=p['scenario'], index=idx, msg=v['msg'], chunk_id=p.get('chunk_id'))

    def run(self):
        specs = self.m.plan(self.tier, self.seed)
        if self.stride < 0:
            self.stride = max(1, len(specs) // -self.stride)       # negative: 'about that many runs'
        pairs = list(enumerate(specs))[::self.stride]
        if self.runs is not None:
            pairs = pairs[:self.runs]
        w = self.workers
        per = getattr(self.m, 'CHUNK', 64)
        cap = getattr(self.m, 'CHUNK_CAP_S', 600)
        self.chunks = [pairs[s:s + per] for s in range(0, len(pairs), per)]
        jobs = [(cid, ch, cap) for cid, ch in enumerate(self.chunks)]
        modname = self.m.__name__
        if w == 1:
            _worker_init(modname, self.seed, self.tier)
            for j in jobs:
                cid, out = _run_chunk(j)
                for p in out:
                    self.fold(p['idx'], p)
            return
        ctx = multiprocessing.get_context('fork')
        deadline = getattr(self.m, 'BATCH_CAP_S', {'quick': 900, 'thorough': 6 * 3600})[self.tier]
        with ProcessPoolExecutor(max_workers=w, mp_context=ctx, initializer=_worker_init,
                                 initargs=(modname, self.seed, self.tier)) as ex:
            try:
                for cid, out in ex.map(_run_chunk, jobs, timeout=deadline):
                    for p in out:
                        self.fold(p['idx'], p)
            except Exception as e:
                for p in list(getattr(ex, '_processes', {}).values()):
                    try:
                        p.kill()
                    except Exception:
                        pass
                raise HarnessError('batch execution failed: %s: %s' % (type(e).__name__, e))

    def digest(self):
        return self._h.hexdigest()[:16]


# --------------------------------------------------------------------------
# known findings

def load_findings(prop):
    if not os.path.exists(FINDINGS_FILE):
        return []
    with open(FINDINGS_FILE) as f:
        data = json.load(f)
    return [e for e in data.get('findings', []) if e.get('property') == prop]


def match_open_finding(findings, cls, key):
    for e in findings:
        if e.get('status') == 'open' and e.get('cls') == cls and e.get('key') == key:
            return e
    return None


# --------------------------------------------------------------------------
# minimisation and replay

def same_violation(viol, cls, key):
    return any(v['cls'] == cls and v['key'] == key for v in viol)


def _eval(module, scen, history):
    for h in history:
        try:
            module.run_scenario(h)
        except Exception:
            pass
    res = module.run_scenario(scen, keep_events=True)
    return {'viol': res.viol, 'events': res.events, 'digest': res.digest}


def evaluate(module, scen, history=()):
    """Execute (history..., scenario) in a forked child of this process; the parent never runs a scenario itself."""
    return run_isolated(_eval, module, scen, list(history), timeout=getattr(module, 'CHUNK_CAP_S', 600))


def minimise(module, scenario, cls, key, history=(), budget_s=60.0, max_evals=3000):
    t0 = _real_perf()
    evals = 0
    history = list(history)

    def still(scen, hist):
        nonlocal evals
        evals += 1
        try:
            return same_violation(evaluate(module, scen, hist)['viol'], cls, key)
        except HarnessError:
            return False

    # 1. shrink the history (drop halves, then single scenarios)
    step = max(1, len(history) // 2)
    while history and step >= 1 and _real_perf() - t0 < budget_s / 2:
        i = 0
        progress = False
        while i < len(history) and _real_perf() - t0 < budget_s / 2:
            cand = history[:i] + history[i + step:]
            if still(scenario, cand):
                history = cand
                progress = True
            else:
                i += step
        if step == 1 and not progress:
            break
        step = max(1, step // 2) if step > 1 else (1 if progress else 0)
    # 2. shrink the scenario
    cur = scenario
    improved = True
    while improved and _real_perf() - t0 < budget_s and evals < max_evals:
        improved = False
        for cand in module.shrink(cur):
            if still(cand, history):
                cur = cand
                improved = True
                break
            if _real_perf() - t0 > budget_s or evals >= max_evals:
                break
    return cur, history, evals


def write_replay(prop, seed, index, scenario, viol, events, digest, suffix='', history=()):
    os.makedirs(REPLAY_DIR, exist_ok=True)
    name = '%s-%d-%d%s.json' % (prop, seed, index, suffix)
    path = os.path.join(REPLAY_DIR, name)
    with open(path, 'w') as f:
        json.dump({'property': prop, 'seed': seed, 'index': index, 'violation': viol,
                   'tree': tree_identity(), 'digest': digest, 'history_dependent': bool(history),
                   'history': list(history), 'scenario': scenario, 'events': events}, f, indent=1, default=repr)
    return path


def replay_fresh(prop, path, timeout=300):
    env = dict(os.environ)
    env['PYTHONHASHSEED'] = '0'
    p = subprocess.run([PYTHON, '-B', os.path.join(VERIF, 'sim', 'main.py'), prop, '--replay', path],
                       capture_output=True, text=True, timeout=timeout, env=env)
    return p.returncode, p.stdout + p.stderr


def do_replay(module, path):
    with open(path) as f:
        rp = json.load(f)
    if hasattr(module, 'worker_init'):
        module.worker_init()
    hist = rp.get('history') or []
    if hist:
        print('replaying %d earlier scenario(s) of the same process first (history-dependent violation)' % len(hist))
    for h in hist:
        try:
            module.run_scenario(h)
        except Exception as e:
            print('  (history scenario raised %s)' % type(e).__name__)
    res = module.run_scenario(rp['scenario'], keep_events=True)
    want = rp.get('violation') or {}
    for e in (res.events or [])[:400]:
        print('  ', e)
    print('REPLAY digest=%s recorded=%s' % (res.digest, rp.get('digest')))
    if rp.get('tree') != tree_identity():
        print('NOTE: repo tree differs from the one the replay was recorded on')
    hit = [v for v in res.viol if not want or (v['cls'] == want.get('cls') and v['key'] == want.get('key'))]
    if hit:
        for v in hit:
            print('REPLAY-VIOLATION property=%s cls=%s key=%s :: %s' % (module.ID, v['cls'], v['key'], v['msg']))
        print('VIOLATION property=%s replay=%s' % (module.ID, path))
        return 1
    for v in res.viol:
        print('REPLAY-OTHER-VIOLATION property=%s cls=%s key=%s :: %s' % (module.ID, v['cls'], v['key'], v['msg']))
    print('replay did not reproduce the recorded violation')
    return 0


# --------------------------------------------------------------------------
# evidence

def write_evidence(module, batch, tier, seed, n_viol, known_lines, extra=None):
    os.makedirs(EVIDENCE_DIR, exist_ok=True)
    wall = _real_perf() - batch.t0
    cov = {
        'evaluations': batch.evals,
        'distinct_nontrivial': len(batch.nontrivial_sigs),
        'distinct_signatures': len(batch.sigs),
        'rule': module.RULE,
        'samples': batch.samples[:3] or ['(no sample captured)'],
        'simulated_runs_per_hour': int(batch.evals / wall * 3600) if wall > 0 else 0,
        'simulated_events': batch.steps,
        'simulated_time_s': batch.simtime_us / 1e6,
        'faults_and_reach_fired': dict(sorted(batch.reach.items())),
        'observations_not_verdicts': dict(sorted(batch.obs.items())),
        'batch_digest': batch.digest(),
        'workers': batch.workers,
        'components': module.COMPONENTS,
        'known_findings_reported': known_lines,
        'repo_tree': tree_identity(),
        'repo_path': REPO,
    }
    try:
        from . import asmsim
        if asmsim.asm is not None:
            cov['fs_backend'] = {'probe_result': asmsim.BACKEND, 'reason': asmsim.BACKEND_REASON or 'canary program assembles on the SimFS shim',
                                 'runs_on_sim': batch.reach.get('backend:sim', 0), 'runs_on_real': batch.reach.get('backend:real', 0)}
    except Exception:
        pass
    rep = os.path.join(VERIF, 'selftest', 'determinism_report.json')
    if os.path.exists(rep):
        try:
            with open(rep) as f:
                d = json.load(f)
            cov['determinism_selftest'] = {'run_pairs_compared': d.get('pairs_compared'), 'configs_differing': d.get('configs_differing'),
                                           'this_property': {k: v for k, v in d.get('by_prop_seed', {}).items() if k.startswith(module.ID + ':')},
                                           'how': 'selftest/determinism.py: same seed twice, PYTHONHASHSEED 0/1/random in fresh interpreters, 1/4/16 workers; per-run event-log digests diffed'}
        except Exception:
            pass
    if extra:
        cov.update(extra)
    ev = {
        'property_id': module.ID,
        'tier': tier,
        'seed': seed,
        'level': module.LEVEL,
        'coverage': cov,
        'assumptions': module.ASSUMPTIONS,
        'wall_s': round(wall, 3),
        'violations': n_viol,
    }
    path = os.path.join(EVIDENCE_DIR, '%s.json' % module.ID)
    tmp = path + '.tmp'
    with open(tmp, 'w') as f:
        json.dump(ev, f, indent=1, default=repr)
    os.replace(tmp, path)
    return path


# --------------------------------------------------------------------------
# the check driver

def run_check(module, tier, seed, workers=None, runs=None, verify_replay=True, stride=1, dump=None):
    try:
        return _run_check(module, tier, seed, workers, runs, verify_replay, stride, dump)
    finally:
        if hasattr(module, 'parent_fini'):
            module.parent_fini()


def _run_check(module, tier, seed, workers=None, runs=None, verify_replay=True, stride=1, dump=None):
    batch = Batch(module, tier, seed, workers=workers, runs=runs, stride=stride, dump=dump)
    print('check %s tier=%s seed=%d repo=%s workers=%d' % (module.ID, tier, seed, REPO, batch.workers))
    sys.stdout.flush()
    if hasattr(module, 'parent_init'):
        module.parent_init(tier, seed)
    try:
        batch.run()
    except HarnessError as e:
        print('HARNESS-ERROR %s' % e)
        return 2
    extra = {}
    if batch.harness_errors:
        idx, msg, spec = batch.harness_errors[0]
        print('HARNESS-ERROR %d run(s) raised inside the harness; first at index %d spec=%r:\n%s'
              % (len(batch.harness_errors), idx, spec, msg))
        write_evidence(module, batch, tier, seed, 0, [], {'harness_errors': len(batch.harness_errors)})
        return 2

    if dump:
        with open(dump, 'w') as f:
            json.dump({'digest': batch.digest(), 'runs': batch.run_digests}, f)
    findings = load_findings(module.ID)
    known_lines = []
    new = []
    for (cls, key), g in sorted(batch.viol_groups.items(), key=lambda kv: kv[1]['index']):
        e = match_open_finding(findings, cls, key)
        if e is not None:
            line = 'KNOWN-FINDING: property=%s %s [cls=%s key=%s runs=%d]' % (module.ID, e['what'], cls, key, g['count'])
            known_lines.append(line)
            print(line)
        else:
            new.append((cls, key, g))

    if os.environ.get('VERIF_LIST_ALL'):
        for cls, key, g in new:
            print('GROUP cls=%s key=%s runs=%d :: %s' % (cls, key, g['count'], g['msg'][:160]))
        return 1 if new else 0
    rc = 0
    n_viol = 0
    unrepro = []
    for cls, key, g in new[:getattr(module, 'MAX_REPORTS', 6)]:
        scen = g['scenario']
        history = []
        first = evaluate(module, scen)
        if not same_violation(first['viol'], cls, key):
            # not reproducible from a pristine process: the outcome depends on what ran earlier in the same process.
            # Rebuild that history (the scenarios of the same chunk before it) - deterministic from (seed, index).
            chunk = batch.chunks[g['chunk_id']] if g.get('chunk_id') is not None else []
            history = [module.make_scenario(sp, seed, i) for i, sp in chunk if i < g['index']]
            again = evaluate(module, scen, history)
            if not same_violation(again['viol'], cls, key):
                unrepro.append('cls=%s key=%s at index %d reproduces neither alone nor after its chunk history' % (cls, key, g['index']))
                continue
        small, hist, evals = minimise(module, scen, cls, key, history, budget_s=getattr(module, 'SHRINK_BUDGET_S', 60.0))
        res = evaluate(module, small, hist)
        if not same_violation(res['viol'], cls, key):
            small, hist = scen, history
            res = evaluate(module, small, hist)
        v = [x for x in res['viol'] if x['cls'] == cls and x['key'] == key]
        if not v:
            unrepro.append('cls=%s key=%s at index %d did not reproduce after minimisation' % (cls, key, g['index']))
            continue
        suffix = '-' + hashlib.sha256(('%s|%s' % (cls, key)).encode()).hexdigest()[:6]
        path = write_replay(module.ID, seed, g['index'], small, v[0], res['events'], res['digest'], suffix, hist)
        unstable = ''
        if verify_replay:
            code, out = replay_fresh(module.ID, path)
            same_class = ('REPLAY-VIOLATION property=%s cls=%s key=%s ' % (module.ID, cls, key)) in out
            if (code != 1 or not same_class) and small is not scen:
                # the minimised scenario does not survive a fresh interpreter (a violation that depends on memory layout
                # can be shrunk into something that only fails in this process): fall back to the scenario as found
                res2 = evaluate(module, scen, history)
                v2 = [x for x in res2['viol'] if x['cls'] == cls and x['key'] == key]
                if v2:
                    path = write_replay(module.ID, seed, g['index'], scen, v2[0], res2['events'], res2['digest'], suffix, history)
                    code, out = replay_fresh(module.ID, path)
                    same_class = ('REPLAY-VIOLATION property=%s cls=%s key=%s ' % (module.ID, cls, key)) in out
                    res, v, evals = res2, v2, -evals
            if code != 1 or not same_class:
                unrepro.append('cls=%s key=%s: replay of %s in a fresh interpreter did not reproduce the violation (exit %d)' % (cls, key, path, code))
                try:
                    os.unlink(path)
                except OSError:
                    pass
                continue
            if ('digest=%s ' % res['digest']) not in out:
                # same violation, different event log: the harness is deterministic on the unchanged tree (selftest/determinism.py),
                # so the code under test itself behaves differently from process to process (e.g. something keyed by id())
                unstable = ' [NOTE: reproduces in a fresh interpreter with the same class and key, but not event-for-event: the code under test is not repeatable across processes]'
        n_viol += g['count']
        hd = ' HISTORY-DEPENDENT (needs %d earlier scenario(s) in the same process: state leaks between calls)' % len(hist) if hist else ''
        print('violation class=%s key=%s runs=%d shrink_evals=%d%s%s :: %s' % (cls, key, g['count'], evals, hd, unstable, v[0]['msg']))
        print('VIOLATION property=%s replay=%s' % (module.ID, path))
        rc = 1
    for u in unrepro:
        print('NOT-REPRODUCED %s' % u)
    if unrepro and rc == 0:
        # something looked like a violation in the batch but could not be reproduced at all: believe nothing
        print('HARNESS-ERROR %d violation group(s) seen in the batch could not be reproduced' % len(unrepro))
        write_evidence(module, batch, tier, seed, 0, known_lines, {'unreproduced': unrepro})
        return 2
    if len(new) > getattr(module, 'MAX_REPORTS', 6):
        print('(%d further violation classes not minimised)' % (len(new) - getattr(module, 'MAX_REPORTS', 6)))

    # the check must never exit 0 having exercised nothing
    vac = []
    for name in getattr(module, 'REQUIRED_REACH', {}).get(tier, []):
        if batch.reach.get(name, 0) == 0:
            vac.append(name)
    warn = [name for name in getattr(module, 'EXPECTED_REACH', []) if batch.reach.get(name, 0) == 0]
    for name in warn:
        print('REACH-WARNING %s never fired' % name)
    extra['reach_warnings'] = warn
    if hasattr(module, 'extra_evidence'):
        extra.update(module.extra_evidence(batch))
    path = write_evidence(module, batch, tier, seed, n_viol, known_lines, extra)
    wall = _real_perf() - batch.t0
    print('%s: %d runs, %d distinct non-trivial signatures, %d events, %.1f simulated s, %.1fs wall, %d runs/h, digest %s'
          % (module.ID, batch.evals, len(batch.nontrivial_sigs), batch.steps, batch.simtime_us / 1e6, wall,
             int(batch.evals / wall * 3600) if wall else 0, batch.digest()))
    print('evidence: %s' % path)
    fatal = [k for k in batch.obs if k.startswith(tuple(getattr(module, 'FATAL_OBS', ()) or ('\0',)))]
    if fatal:
        print('HARNESS-ERROR stub and real file system disagree (%s): the SimFS model misrepresents the code; nothing reported by this run is to be believed' % ', '.join(fatal))
        return 2
    if vac and rc == 0:
        print('HARNESS-ERROR required reach counters stuck at zero: %s' % ', '.join(vac))
        return 2
    return rc
