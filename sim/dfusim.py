"""Engine shared by C18 and C19: runs the real bronzebeard.dfu.cli_main()
in-process against SimDfuSe under SimClock."""
import contextlib
import io
import os
import random
import shutil
import signal
import sys
import tempfile
import time as _real_time_module

from . import core
from . import dfudev
from . import realfs
from .dfudev import PAGE, VARIANTS, FLASH_BASE

_dfu = None
_tmpdir = None
_real_time_attrs = {}
ANNOUNCEMENT = None      # learned: last stdout line of a fault-free successful run


def parent_init(tier, seed):
    _ensure_tmpdir()
    worker_init()


def parent_fini():
    realfs.cleanup_base()


def worker_init():
    """Import the real dfu module against the fake usb package (once)."""
    global _dfu, _tmpdir, ANNOUNCEMENT
    if _dfu is None:
        core.ensure_repo_on_path()
        dfudev.install_fake_usb()
        import bronzebeard.dfu as dfu
        assert os.path.abspath(dfu.__file__).startswith(core.REPO + os.sep), dfu.__file__
        _dfu = dfu
        for name in ('sleep', 'time', 'monotonic', 'perf_counter', 'monotonic_ns', 'perf_counter_ns', 'time_ns'):
            _real_time_attrs[name] = getattr(_real_time_module, name)
    _ensure_tmpdir()
    if ANNOUNCEMENT is None:
        out = execute({'variant': '4', 'fw': {'len': 10, 'kind': 'random', 'seed': 1},
                       'init': {'kind': 'ff', 'seed': 0}, 'sched': {}}, core.Result(), core.EventLog())
        if out['outcome'] == 'ok':
            lines = [l.strip() for l in out['stdout'].replace('\r', '\n').split('\n') if l.strip()]
            ANNOUNCEMENT = lines[-1] if lines else ''
        else:
            ANNOUNCEMENT = ''


def _ensure_tmpdir():
    """The firmware image is a real file (dfu.py may open it however it likes) in the run's private scratch directory,
    created once by the parent, inherited by forked workers, removed by the creating process."""
    global _tmpdir
    if _tmpdir is None or not os.path.isdir(_tmpdir):
        _tmpdir = realfs.base_dir()


def firmware_bytes(fw):
    n, kind, seed = fw['len'], fw.get('kind', 'random'), fw.get('seed', 0)
    if kind == 'zeros':
        return b'\x00' * n
    if kind == 'ff':
        return b'\xff' * n
    r = random.Random(seed)
    if kind == 'suffix':
        # an image that ends in a well-formed 16-byte DFU file suffix (bcdDevice, idProduct, idVendor, bcdDFU, 'UFD', 16, CRC):
        # it is still just a file of n bytes as far as C18/C19 are concerned
        import struct
        import zlib
        body = r.randbytes(max(0, n - 16))
        suf = struct.pack('<HHHH3sB', 0xFFFF, fw.get('pid', 0x0189), fw.get('vid', 0x28e9), 0x0100, b'UFD', 16)
        crc = (zlib.crc32(body + suf) ^ 0xFFFFFFFF) & 0xFFFFFFFF
        return (body + suf + struct.pack('<I', crc))[-n:] if n >= 16 else (suf + struct.pack('<I', crc))[:n]
    if kind == 'tail':
        head = max(0, min(n, fw.get('head', n)))
        return r.randbytes(head) + bytes([fw.get('fill', 255)]) * (n - head)
    if kind == 'mixed':
        out = bytearray()
        while len(out) < n:
            k = r.choice((0, 1, 2, 2))
            ln = r.choice((1, 7, 256, 1024, 1500))
            out += (b'\x00' * ln, b'\xff' * ln, r.randbytes(ln))[k]
        data = bytes(out[:n])
    else:
        data = r.randbytes(n)
    if n and data[-1] in (0, 0xff) and kind != 'mixed':
        data = data[:-1] + b'\x5a'
    return data


def init_flash_bytes(init, size):
    kind, seed = init.get('kind', 'ff'), init.get('seed', 0)
    if kind == 'ff':
        return b'\xff' * size
    if kind == 'zeros':
        return b'\x00' * size
    r = random.Random(seed)
    if kind == 'old':
        n = r.randrange(0, size + 1)
        return r.randbytes(n) + b'\xff' * (size - n)
    return r.randbytes(size)


def ops_expected(fwlen):
    pages = (fwlen + PAGE - 1) // PAGE
    return 3 * pages


def scheduled_polls(sched, nops):
    ops = sched.get('ops', {})
    default = sched.get('default', [[], 0])
    return sum(len(ops.get(str(i), default)[0]) for i in range(nops))


def step_budget(scen):
    """Hard cap on requests per run.  Its only job is to tell "finishes" from "spins": the expected conversation is
    1 + sum(2 + polls) requests; the cap allows 8x that plus a whole-flash sweep with the longest scheduled busy phase."""
    nops = ops_expected(scen['fw']['len'])
    sched = scen.get('sched', {})
    longest = max([len(sched.get('default', [[], 0])[0])] + [len(e[0]) for e in sched.get('ops', {}).values()])
    return 64 + 8 * (nops + scheduled_polls(sched, nops)) + 4 * VARIANTS[scen['variant']] * (3 + longest)


def execute(scen, res, log):
    """Run dfu.cli_main() once.  Returns a dict describing what happened."""
    dfu = _dfu
    variant = scen['variant']
    size = VARIANTS[variant] * PAGE
    fw = firmware_bytes(scen['fw'])
    init = init_flash_bytes(scen.get('init', {}), size)
    clock = dfudev.SimClock(log)
    dev = dfudev.SimDfuSe(scen, clock, log, init, res, step_budget(scen))
    dfudev.set_device(dev)
    _ensure_tmpdir()
    knobs = scen.get('knobs', {})
    rundir = os.path.join(_tmpdir, 'run-%d' % os.getpid())
    os.makedirs(rundir, exist_ok=True)
    fname = knobs.get('fwname') or 'fw.bin'
    path = os.path.join(rundir, fname)
    writer = None
    if knobs.get('fifo'):
        # the image arrives through a named pipe: its size is only known once it has been read
        os.mkfifo(path)
        writer = os.fork()
        if writer == 0:
            try:
                signal.alarm(20)
                fd = os.open(path, os.O_WRONLY)
                view = memoryview(fw)
                while view:
                    n = os.write(fd, view[:65536])
                    view = view[n:]
                os.close(fd)
            except BaseException:
                pass
            finally:
                os._exit(0)
    else:
        with open(path, 'wb') as f:
            f.write(fw)

    saved_argv = sys.argv
    saved_dfu_time = dfu.__dict__.get('time')
    saved_cwd = os.getcwd()
    saved_stdin = sys.stdin
    saved_platform = sys.platform
    os.chdir(rundir)
    sys.stdin = io.TextIOWrapper(io.BytesIO(b''))          # a tool that reads '-' as stdin finds it empty
    if knobs.get('platform'):
        sys.platform = knobs['platform']
    arg = fname if knobs.get('relname') else path
    sys.argv = ['bronzebeard-dfu', scen.get('device_id', '28e9:0189'), arg]
    dfu.time = clock
    for name in _real_time_attrs:
        setattr(_real_time_module, name, getattr(clock, name))
    out, err = io.StringIO(), io.StringIO()
    outcome, detail = 'ok', ''
    try:
        with contextlib.redirect_stdout(out), contextlib.redirect_stderr(err):
            try:
                rv = dfu.cli_main()
                if rv is not None:
                    raise SystemExit(rv)        # console-script launcher semantics: sys.exit(cli_main())
            except SystemExit as e:
                if e.code is None or e.code == 0:
                    outcome = 'ok'
                elif isinstance(e.code, int):
                    outcome, detail = 'exit', str(e.code)
                else:
                    outcome, detail = 'exit-message', str(e.code)
            except dfudev.SimBudgetExceeded as e:
                outcome, detail = 'budget', str(e)
            except Exception as e:
                outcome, detail = 'exception', '%s: %s' % (type(e).__name__, e)
    finally:
        for name, fn in _real_time_attrs.items():
            setattr(_real_time_module, name, fn)
        if saved_dfu_time is not None:
            dfu.time = saved_dfu_time
        sys.argv = saved_argv
        sys.stdin = saved_stdin
        sys.platform = saved_platform
        os.chdir(saved_cwd)
        dfudev.set_device(None)
        if writer:
            try:
                # nobody may have opened the pipe (refused earlier): unblock and reap the writer
                fd = os.open(path, os.O_RDONLY | os.O_NONBLOCK)
                os.close(fd)
            except OSError:
                pass
            try:
                os.kill(writer, 9)
            except OSError:
                pass
            try:
                os.waitpid(writer, 0)
            except OSError:
                pass
        shutil.rmtree(rundir, ignore_errors=True)
    clock.flush()
    log.add('end', outcome, detail[:120])
    return {'outcome': outcome, 'detail': detail, 'stdout': out.getvalue(), 'stderr': err.getvalue(),
            'dev': dev, 'clock': clock, 'fw': fw, 'init': init, 'size': size}


def success_announced(stdout):
    if not ANNOUNCEMENT:
        return False
    lines = [l.strip() for l in stdout.replace('\r', '\n').split('\n') if l.strip()]
    return ANNOUNCEMENT in lines


# --------------------------------------------------------------------------
# schedule generation

T_CLASSES = ((0, 0), (1, 10), (11, 255), (256, 65535), (65536, (1 << 24) - 1))


def draw_timeout(r, zero_bias=0.3):
    """Poll delays in every byte class of bwPollTimeout.  Delays above 65 s are kept rare and mostly just above the byte
    boundary: virtual time is free for the simulator, but a host that sleeps in slices pays per slice and must still
    be able to finish a run inside the wall-clock cap."""
    if r.random() < zero_bias:
        return 0
    c = r.random()
    if c < 0.45:
        return r.randint(1, 10)
    if c < 0.80:
        return r.randint(11, 255)
    if c < 0.92:
        return r.choice((256, 257, 300, 511, 1000, r.randint(256, 2000)))
    if c < 0.97:
        return r.choice((4096, 65535, r.randint(2001, 65535)))
    if c < 0.9999:
        return r.choice((65536, 65537, 65791, 66000, 70000, 131072, r.randint(65536, 200000)))
    return r.choice(((1 << 24) - 1, 1 << 23, r.randint(65536, (1 << 24) - 1)))


def draw_entry(r):
    n = r.choice((0, 0, 1, 1, 1, 2, 2, 3, r.randint(3, 6)))
    if r.random() < 0.02:
        # a long busy phase: the same state reported many times in a row (small delays)
        n = r.choice((23, 24, 25, 40, 100))
        return [[r.choice((0, 1, 1, 2, 5)) for _ in range(n)], 0]
    return [[draw_timeout(r, 0.15) for _ in range(n)], 0]


def canonical_sched(k, nops=0):
    if k == 0:      # no busy phase at all, every timeout zero
        return {'init': 0, 'idle': 0, 'ops': {}, 'default': [[], 0]}
    if k == 1:      # ST firmware pattern: exactly one busy poll per operation
        return {'init': 0, 'idle': 0, 'ops': {}, 'default': [[50], 0]}
    # heavy: busy polls exercising every byte of bwPollTimeout (the 70 s one on the first and the last operation only),
    # a long busy phase on the second operation, and delays on idle replies
    ops = {'0': [[1, 300, 70000], 5], '1': [[1] * 30, 0]}
    if nops > 2:
        ops[str(nops - 1)] = [[2, 66000], 3]
    return {'init': 3, 'idle': 2, 'ops': ops, 'default': [[1, 300], 5]}


def draw_sched(r, nops, knobs):
    if knobs.get('all_zero'):
        ent = lambda: [[0] * r.choice((0, 1, 2)), 0]
        sched = {'init': 0, 'idle': 0, 'default': ent(), 'ops': {}}
    elif knobs.get('single_poll'):
        sched = {'init': 0, 'idle': 0, 'default': [[draw_timeout(r, 0.1)], 0], 'ops': {}}
    else:
        sched = {'init': draw_timeout(r, 0.5), 'idle': 0, 'default': draw_entry(r), 'ops': {}}
    if knobs.get('idle_timeouts'):
        sched['idle'] = draw_timeout(r, 0.0)
        sched['default'][1] = draw_timeout(r, 0.3)
    if nops > 12:
        # the default entry applies to every operation of a large image: keep its delays (and the idle delay) below 256 ms so
        # that the simulated time per run stays bounded; the long delays live in the per-operation overrides below
        sched['default'] = [[min(t, 1 + t % 255) for t in sched['default'][0]], min(sched['default'][1], 1 + sched['default'][1] % 255)]
        sched['idle'] = min(sched['idle'], 1 + sched['idle'] % 255)
    if nops and not knobs.get('all_zero'):
        k = r.choice((0, 1, 2, 4, 8, 12))
        picks = set()
        for _ in range(k):
            picks.add(r.choice((0, 1, 2, nops - 1, nops - 2, nops - 3, r.randrange(nops))) % nops)
        for i in sorted(picks):
            e = draw_entry(r)
            if knobs.get('idle_timeouts'):
                e[1] = draw_timeout(r, 0.3)
            sched['ops'][str(i)] = e
    return sched


BOUNDARY_LENGTHS_REL = (0, 1, 2, 1023, 1024, 1025, 2047, 2048, 2049, 3 * 1024 - 1, 3 * 1024, 3 * 1024 + 1)


def boundary_lengths(variant):
    size = VARIANTS[variant] * PAGE
    s = set(x for x in BOUNDARY_LENGTHS_REL if x <= size)
    s.update((size, size - 1, size - 2, size - 1023, size - 1024, size - 1025, size // 2, size // 2 + 1))
    return sorted(x for x in s if 0 <= x <= size)


def draw_length(r, variant):
    size = VARIANTS[variant] * PAGE
    c = r.random()
    if c < 0.25:
        return r.choice(boundary_lengths(variant))
    if c < 0.75:       # small images: many short, diverse runs
        pages = r.randint(0, min(8, size // PAGE))
        rem = r.choice((0, 0, 1, 1023, 512, r.randrange(PAGE)))
        return min(size, max(0, pages * PAGE - rem))
    pages = r.randint(0, size // PAGE)
    rem = r.choice((0, 0, 1, 1023, r.randrange(PAGE)))
    return min(size, max(0, pages * PAGE - rem))


def shrink_common(scen):
    """Candidate smaller scenarios (shared by C18 and C19)."""
    import copy

    def variant_of(s, **kw):
        c = copy.deepcopy(s)
        c.update(kw)
        return c

    n = scen['fw']['len']
    # shorten firmware: pages then remainder
    seen = set()
    for cand in (0, 1, PAGE, n // 2, n - PAGE, (n // PAGE) * PAGE, ((n - 1) // PAGE) * PAGE + 1):
        if 0 <= cand < n and cand not in seen:
            seen.add(cand)
            c = copy.deepcopy(scen)
            c['fw']['len'] = cand
            yield c
    if scen['variant'] != '4' and n <= 16 * PAGE:
        yield variant_of(scen, variant='4')
    for v in ('6', '8'):
        if VARIANTS[v] < VARIANTS[scen['variant']] and n <= VARIANTS[v] * PAGE:
            yield variant_of(scen, variant=v)
    sched = scen.get('sched', {})
    if sched.get('ops'):
        c = copy.deepcopy(scen)
        c['sched']['ops'] = {}
        yield c
        for k in list(sched['ops']):
            c = copy.deepcopy(scen)
            del c['sched']['ops'][k]
            yield c
    if sched.get('default', [[], 0]) != [[], 0]:
        c = copy.deepcopy(scen)
        c['sched']['default'] = [[], 0]
        yield c
        d = sched['default']
        if len(d[0]) > 1:
            c = copy.deepcopy(scen)
            c['sched']['default'] = [d[0][:1], d[1]]
            yield c
        if d[1]:
            c = copy.deepcopy(scen)
            c['sched']['default'] = [d[0], 0]
            yield c
        if any(t > 1 for t in d[0]):
            c = copy.deepcopy(scen)
            c['sched']['default'] = [[min(t, 1) for t in d[0]], d[1]]
            yield c
    for key in ('init', 'idle'):
        if sched.get(key):
            c = copy.deepcopy(scen)
            c['sched'][key] = 0
            yield c
    if scen.get('start_error'):
        yield variant_of(scen, start_error=0)
    if scen.get('init', {}).get('kind', 'ff') != 'ff':
        yield variant_of(scen, init={'kind': 'ff', 'seed': 0})
    if scen['fw'].get('kind', 'random') != 'random':
        c = copy.deepcopy(scen)
        c['fw']['kind'] = 'random'
        yield c
    for key in ('errors', 'faults'):
        lst = scen.get(key) or []
        for i in range(len(lst)):
            c = copy.deepcopy(scen)
            del c[key][i]
            yield c
    if scen.get('lenient'):
        yield variant_of(scen, lenient=False)
    if scen.get('pad', '3CJ') != '3CJ':
        yield variant_of(scen, pad='3CJ')
    if scen.get('device_id', '28e9:0189') != '28e9:0189':
        yield variant_of(scen, device_id='28e9:0189')
    if scen.get('knobs'):
        yield variant_of(scen, knobs={})
        for k in list(scen['knobs']):
            c = copy.deepcopy(scen)
            del c['knobs'][k]
            yield c
