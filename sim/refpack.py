"""Independent reference for the data directives (C10 oracle).  No struct, no
unicode_escape: plain int.to_bytes and a hand-written escape processor."""

SEQ_WIDTH = {'bytes': 1, 'shorts': 2, 'ints': 4, 'longs': 4, 'longlongs': 8}
SHORT_WIDTH = {'db': 1, 'dh': 2, 'dw': 4, 'dd': 8}
FMT_WIDTH = {'b': 1, 'h': 2, 'i': 4, 'l': 4, 'q': 8}


class Misfit(Exception):
    """The value does not fit the directive's width: the assembler must refuse the program."""


def pack_inferred(value, width, order='little'):
    """Signedness inferred from the sign (sequences and db/dh/dw/dd)."""
    bits = 8 * width
    if value < 0:
        if value < -(1 << (bits - 1)):
            raise Misfit('%d does not fit %d signed bits' % (value, bits))
        return value.to_bytes(width, order, signed=True)
    if value > (1 << bits) - 1:
        raise Misfit('%d does not fit %d unsigned bits' % (value, bits))
    return value.to_bytes(width, order, signed=False)


def pack_fmt(fmt, value):
    """Documented two-character formats: '<' or '>' followed by one of bBhHiIlLqQ."""
    order = {'<': 'little', '>': 'big'}[fmt[0]]
    c = fmt[1]
    width = FMT_WIDTH[c.lower()]
    bits = 8 * width
    if c.islower():
        if not -(1 << (bits - 1)) <= value <= (1 << (bits - 1)) - 1:
            raise Misfit('%d does not fit signed %d bits' % (value, bits))
        return value.to_bytes(width, order, signed=True)
    if not 0 <= value <= (1 << bits) - 1:
        raise Misfit('%d does not fit unsigned %d bits' % (value, bits))
    return value.to_bytes(width, order, signed=False)


ESC = {'n': '\n', 't': '\t', 'r': '\r', '\\': '\\', '0': '\0', '"': '"', "'": "'", 'a': '\a', 'b': '\b', 'f': '\f', 'v': '\v'}


def unescape(text):
    """Backslash-escape processing for the escapes the generator uses."""
    out = []
    i = 0
    while i < len(text):
        ch = text[i]
        if ch != '\\' or i + 1 >= len(text):
            out.append(ch)
            i += 1
            continue
        n = text[i + 1]
        if n == 'x':
            out.append(chr(int(text[i + 2:i + 4], 16)))
            i += 4
        elif n == 'u':
            out.append(chr(int(text[i + 2:i + 6], 16)))
            i += 6
        elif n == 'U':
            out.append(chr(int(text[i + 2:i + 10], 16)))
            i += 10
        elif n in '01234567':
            j = i + 1
            while j < len(text) and j < i + 4 and text[j] in '01234567':
                j += 1
            out.append(chr(int(text[i + 1:j], 8)))
            i = j
        elif n == 'N' and text[i + 2:i + 3] == '{':
            import unicodedata
            j = text.index('}', i)
            out.append(unicodedata.lookup(text[i + 3:j]))
            i = j + 1
        elif n in ESC:
            out.append(ESC[n])
            i += 2
        else:
            raise ValueError('escape \\%s not generated' % n)
    return ''.join(out)


def utf8(text):
    """Hand-written UTF-8 encoder."""
    out = bytearray()
    for ch in text:
        c = ord(ch)
        if c < 0x80:
            out.append(c)
        elif c < 0x800:
            out += bytes((0xC0 | c >> 6, 0x80 | c & 0x3F))
        elif c < 0x10000:
            out += bytes((0xE0 | c >> 12, 0x80 | (c >> 6) & 0x3F, 0x80 | c & 0x3F))
        else:
            out += bytes((0xF0 | c >> 18, 0x80 | (c >> 12) & 0x3F, 0x80 | (c >> 6) & 0x3F, 0x80 | c & 0x3F))
    return bytes(out)


def reference_image(items, files):
    """items: list of dicts describing the program in order:
      {'op':'label','name':..} {'op':'seq','kw':..,'values':[ints]} {'op':'short','kw':..,'value':int|('label',name)}
      {'op':'pack','fmt':..,'value':int} {'op':'string','text':raw} {'op':'blob','path':abs} {'op':'align','n':int}
    files: abs path -> bytes.  Returns (bytes, labels).  Raises Misfit."""
    # pass 1: sizes and label positions
    pos = 0
    labels = {}
    for it in items:
        op = it['op']
        if op == 'label':
            labels[it['name']] = pos
        elif op == 'seq':
            pos += SEQ_WIDTH[it['kw']] * len(it['values'])
        elif op == 'short':
            pos += SHORT_WIDTH[it['kw']]
        elif op == 'pack':
            pos += FMT_WIDTH[it['fmt'][1].lower()]
        elif op == 'string':
            pos += len(utf8(unescape(it['text'])))
        elif op == 'blob':
            pos += len(files[it['path']])
        elif op == 'align':
            pos += (-pos) % it['n']
    out = bytearray()
    for it in items:
        op = it['op']
        if op == 'seq':
            for v in it['values']:
                out += pack_inferred(v, SEQ_WIDTH[it['kw']])
        elif op == 'short':
            v = it['value']
            if isinstance(v, (list, tuple)):
                v = labels[v[1]]
            out += pack_inferred(v, SHORT_WIDTH[it['kw']])
        elif op == 'pack':
            out += pack_fmt(it['fmt'], it['value'])
        elif op == 'string':
            out += utf8(unescape(it['text']))
        elif op == 'blob':
            out += files[it['path']]
        elif op == 'align':
            out += b'\x00' * ((-len(out)) % it['n'])
    return bytes(out), labels
