"""C19 - DFU refuses oversize firmware untouched and never reports a failed flash as done."""
import copy

from . import core, dfusim, dfudev
from .dfudev import PAGE, VARIANTS

ID = 'C19'
LEVEL = 'fault_enumeration'
RULE = ('clause 1: every variant x oversize lengths (size+1, +2, +1023, +1024, +1025, 2*size, 2*size+1, seeded) -> no DNLOAD request at all, '
        'non-zero exit, flash byte-identical; clause 2: fault-point enumeration inside the simulation - every single injection of a device '
        'error status (op in erase/write) x step x status code 1..15 x {strict, lenient device} for small page counts, every ordered pair of '
        'injection points with sampled codes, plus seeded sampling over lengths/variants/schedules biased to the last erase / last write; '
        'non-trivial = an injected error status was actually reported to the host, or an oversize image was offered; distinct = '
        '(clause, variant, pages, injection points, status, lenient, outcome) signatures')
COMPONENTS = {'real': ['bronzebeard/dfu.py (cli_main, request builders, polling loops)', 'argparse', 'struct', 'file read of the firmware (real temp file)'],
              'stub': ['usb package + device (SimDfuSe reference model with error-status injector)', 'time (SimClock)']}
ASSUMPTIONS = ['device reports a failed erase/write through bStatus != OK and bState dfuERROR in the completing GETSTATUS reply (DFU 1.1 6.1.2)',
               'after an error a compliant device STALLs further DNLOADs until CLRSTATUS; the "lenient" knob models bootloaders that do not',
               'a page write is the set-address command plus the data download: an error status on either sub-step counts as an error of that write']
REQUIRED_REACH = {'quick': ['clause2:error-reported-erase', 'clause2:error-reported-write', 'clause2:error-reported-setaddr', 'clause1:oversize-offered'],
                  'thorough': ['clause2:error-reported-erase', 'clause2:error-reported-write', 'clause2:error-reported-setaddr', 'clause1:oversize-offered']}
EXPECTED_REACH = ['clause2:error-on-last-write', 'clause2:error-on-last-erase', 'clause2:setaddr-error-reported'] + ['clause2:status-%d' % s for s in range(1, 16)]
CHUNK = 100

parent_init = dfusim.parent_init
parent_fini = dfusim.parent_fini
worker_init = dfusim.worker_init


def plan(tier, seed):
    specs = []
    for v in 'B864':
        size = VARIANTS[v] * PAGE
        for n in (size + 1, size + 2, size + 15, size + 16, size + 17, size + 1023, size + 1024, size + 1025, 2 * size, 2 * size + 1):
            for s in (0, 1):
                for rep in range(3):
                    specs.append({'k': 'o', 'v': v, 'len': n, 'se': s, 'rep': rep})
    maxp = 8 if tier == 'quick' else 32
    maxpair = 4 if tier == 'quick' else 12
    for pages in range(1, maxp + 1):
        for op in ('erase', 'setaddr', 'write'):
            for n in range(pages):
                for status in range(1, 16):
                    for lenient in (0, 1):
                        specs.append({'k': 'e1', 'p': pages, 'e': [[op, n, status]], 'l': lenient})
    for pages in range(1, maxpair + 1):
        pts = [(op, n) for op in ('erase', 'setaddr', 'write') for n in range(pages)]
        for a in pts:
            for b in pts:
                if a != b:
                    for lenient in (0, 1):
                        specs.append({'k': 'e2', 'p': pages, 'a': list(a), 'b': list(b), 'l': lenient})
    nrand = 12000 if tier == 'quick' else 3000000
    specs.extend({'k': 'r'} for _ in range(nrand))
    nover = 1500 if tier == 'quick' else 200000
    specs.extend({'k': 'ro'} for _ in range(nover))
    return specs


def make_scenario(spec, seed, idx):
    r = core.rng_for(ID, seed, idx)
    k = spec['k']
    base = {'config': 'fault-inject', 'start_error': 0, 'knobs': {}, 'lenient': False, 'errors': [],
            # serial numbers whose first characters are not ASCII, or look like another variant's letter; id spellings int(x, 16) accepts
            'pad': r.choice(('3CJ', '3CJ', 'ABZ', '\u00e9BJ', '\u00e98K', '\u00f14Q', '\u4e2d6Z', 'B8J', '64K')),
            'device_id': r.choice(('28e9:0189', '28e9:0189', '28E9:0189', '0x28e9:0x0189', '28e9:189'))}
    if r.random() < 0.1:
        base['knobs']['platform'] = 'win32'
    if r.random() < 0.1:
        base['knobs']['fifo'] = True
    if r.random() < 0.1:
        base['knobs']['fwname'] = r.choice(('-', 'firm ware.bin', 'fw.bin.dfu'))
        base['knobs']['relname'] = True
    if k in ('o', 'ro'):
        if k == 'o':
            v, n = spec['v'], spec['len']
            se = r.randint(1, 15) if spec['se'] else 0
        else:
            v = r.choice('B864')
            size = VARIANTS[v] * PAGE
            n = size + r.choice((1, 2, 3, 8, 15, 16, 17, 1023, 1024, r.randint(1, 255), r.randint(1, size), r.randint(1, 4 * size)))
            se = r.choice((0, 0, r.randint(1, 15)))
        fwk = r.choice(('random', 'random', 'tail', 'tail', 'ff', 'zeros', 'suffix', 'suffix'))
        fw = {'len': n, 'kind': fwk, 'seed': r.randrange(1 << 30)}
        if fwk == 'suffix':
            fw.update(vid=r.choice((0x28e9, 0xFFFF)), pid=r.choice((0x0189, 0xFFFF)))
        if fwk == 'tail':
            # everything beyond the flash size (or beyond some earlier point) is one fill byte: padding-like
            fw.update(head=r.choice((VARIANTS[v] * PAGE, VARIANTS[v] * PAGE, VARIANTS[v] * PAGE - 1, r.randint(0, VARIANTS[v] * PAGE))), fill=r.choice((255, 255, 0)))
        base.update(clause=1, variant=v, fw=fw,
                    init={'kind': r.choice(('ff', 'random', 'old')), 'seed': r.randrange(1 << 30)},
                    start_error=se, sched=dfusim.canonical_sched(r.choice((0, 1, 2))))
        return base
    if k in ('e1', 'e2'):
        pages = spec['p']
        n = pages * PAGE - r.choice((0, 0, 1, 1023, r.randrange(PAGE)))
        if k == 'e1':
            errs = [{'op': e[0], 'n': e[1], 'status': e[2]} for e in spec['e']]
        else:
            errs = [{'op': spec['a'][0], 'n': spec['a'][1], 'status': r.randint(1, 15)},
                    {'op': spec['b'][0], 'n': spec['b'][1], 'status': r.randint(1, 15)}]
        base.update(clause=2, variant=r.choice('B864'), fw={'len': n, 'kind': 'random', 'seed': r.randrange(1 << 30)},
                    init={'kind': r.choice(('ff', 'random')), 'seed': r.randrange(1 << 30)},
                    sched=dfusim.canonical_sched(r.choice((0, 1, 2))), errors=errs, lenient=bool(spec['l']))
        return base
    # seeded sampling
    v = r.choice('B864')
    n = max(1, dfusim.draw_length(r, v))
    pages = (n + PAGE - 1) // PAGE
    knobs = {}
    if r.random() < 0.3:
        knobs['idle_timeouts'] = True
    if r.random() < 0.15:
        knobs['single_poll'] = True
    errs = []
    for _ in range(r.choice((1, 1, 2))):
        op = r.choice(('erase', 'write', 'write', 'erase', 'setaddr'))
        pos = r.choice((pages - 1, pages - 1, 0, r.randrange(pages)))
        errs.append({'op': op, 'n': pos, 'status': r.randint(1, 15)})
    base.update(clause=2, variant=v,
                fw={'len': n, 'kind': r.choice(('random', 'mixed')), 'seed': r.randrange(1 << 30)},
                init={'kind': r.choice(('ff', 'random', 'old')), 'seed': r.randrange(1 << 30)},
                start_error=r.choice((0, 0, 0, r.randint(1, 15))),
                sched=dfusim.draw_sched(r, 3 * pages, knobs), knobs=dict(base['knobs'], **knobs), errors=errs, lenient=r.random() < 0.5)
    return base


def names_failure(x, scen):
    """Weak check that the failing run says something about the failure."""
    if x['outcome'] == 'exit-message' and x['detail'].strip():
        return True
    if x['outcome'] == 'exception':
        return True       # python prints the traceback naming the exception
    # non-zero integer exit: some output line must differ from the fault-free twin's output
    twin = copy.deepcopy(scen)
    twin['errors'] = []
    t = dfusim.execute(twin, core.Result(), core.EventLog(keep=0))
    norm = lambda s: set(l.strip() for l in s.replace('\r', '\n').split('\n') if l.strip())
    return bool((norm(x['stdout']) | norm(x['stderr'])) - (norm(t['stdout']) | norm(t['stderr'])))


def run_scenario(scen, keep_events=False):
    res = core.Result()
    log = core.EventLog(keep=400 if keep_events else 0)
    x = dfusim.execute(scen, res, log)
    dev, fw, init, size = x['dev'], x['fw'], x['init'], x['size']
    outcome = x['outcome']
    n = len(fw)
    pages = (n + PAGE - 1) // PAGE
    announced = dfusim.success_announced(x['stdout'])
    sig_extra = ''
    if n > size:
        res.hit('clause1:oversize-offered')
        res.nontrivial = True
        if dev.dnload_requests:
            res.violate('oversize-touched', 'dnload', 'oversize image (%d > %d): %d DNLOAD request(s) were sent (erases %s)'
                        % (n, size, dev.dnload_requests, dev.erased_pages[:4]))
        if bytes(dev.flash) != init:
            res.violate('oversize-touched', 'flash', 'oversize image (%d > %d): flash content changed' % (n, size))
        if outcome == 'ok' or announced:
            res.violate('oversize-accepted', 'exit', 'oversize image (%d > %d): run ended %s, success announced=%s' % (n, size, outcome, announced))
        sig_extra = 'over%d' % min(n - size, 1025)
    else:
        # a page write is the set-address command plus the data download: an error status on either is an error of that write
        rep = [e for e in dev.errors_reported if e[0] in ('erase', 'write', 'setaddr')]
        if any(e[0] == 'setaddr' for e in rep):
            res.hit('clause2:setaddr-error-reported')
        if rep:
            res.nontrivial = True
            kinds = set(e[0] for e in rep)
            for kd in kinds:
                res.hit('clause2:error-reported-' + kd)
            for e in rep:
                res.hit('clause2:status-%d' % e[2])
                if e[1] == pages - 1:
                    res.hit('clause2:error-on-last-' + e[0])
            if len(rep) >= 2:
                res.hit('clause2:two-errors-reported')
            first = rep[0]
            where = '%s-%s-%s' % (first[0], 'last' if first[1] == pages - 1 else 'notlast', 'lenient' if scen.get('lenient') else 'strict')
            desc = 'device reported status %d for %s #%d of %d page(s) (%s device)' % (first[2], first[0], first[1], pages,
                                                                                     'lenient' if scen.get('lenient') else 'strict')
            if outcome == 'ok':
                res.violate('failed-flash-exit-zero', where, '%s but the run exited 0 (announced=%s)' % (desc, announced))
            elif announced:
                res.violate('failed-flash-announced-done', where, '%s; run ended %s yet printed the success announcement' % (desc, outcome))
            elif outcome == 'budget':
                res.violate('failed-flash-no-exit', where, '%s; the run kept issuing requests and never ended' % desc)
            elif not names_failure(x, scen):
                res.violate('failure-not-named', where, '%s; run ended %s %r without naming the failure' % (desc, outcome, x['detail'][:80]))
            sig_extra = 'inj:%s' % ','.join('%s%d/%d' % (e[0][0], e[1], e[2]) for e in rep)
        else:
            res.hit('clause2:no-error-reported')
    res.hit('ended:' + outcome)
    res.sig = 'c%d|%s|p%d|%s|l%d|%s' % (scen.get('clause', 0), scen['variant'], pages, outcome, int(bool(scen.get('lenient'))), sig_extra)
    res.digest = log.digest()
    res.simtime_us = x['clock'].now_us
    res.steps = log.seq
    if keep_events:
        res.events = log.events
    return res


def shrink(scen):
    for c in dfusim.shrink_common(scen):
        yield c
    for i, e in enumerate(scen.get('errors') or []):
        if e['status'] != 1:
            c = copy.deepcopy(scen)
            c['errors'][i]['status'] = 1
            yield c


def extra_evidence(batch):
    return {'simulated_time_hours': batch.simtime_us / 3.6e9,
            'fault_kinds': 'device error status (1..15) at completion of the n-th erase / write / set-address; strict vs lenient device; start-in-error; oversize image'}
