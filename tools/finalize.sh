#!/bin/bash
# Final refresh: every quick check on /repo (evidence rewritten), schema validation, manifest regeneration.
set -e
cd "$(dirname "${BASH_SOURCE[0]}")/.."
unset VERIF_SEED VERIF_TIER VERIF_REPO VERIF_BACKEND
/venv/bin/python tools/validate_mutants.py | tail -1
for c in C10 C14 C15 C16 C17 C18 C19; do
  ./check $c --tier quick > /tmp/final-$c.txt 2>&1 || { echo "CHECK $c FAILED"; tail -5 /tmp/final-$c.txt; exit 1; }
  tail -2 /tmp/final-$c.txt | head -1 | cut -c1-140
done
/venv/bin/python tools/mkmanifest.py
python3-vt - <<'PY'
import json, jsonschema
jsonschema.validate(json.load(open('/verif/MANIFEST.json')), json.load(open('/root/.vp/MANIFEST.schema.json')))
for f in ('C10', 'C14', 'C15', 'C16', 'C17', 'C18', 'C19'):
    jsonschema.validate(json.load(open('/verif/evidence/%s.json' % f)), json.load(open('/root/.vp/EVIDENCE.schema.json')))
print('manifest and evidence valid')
PY
rm -f replays/*.json
