"""C10 - data directives and include_bytes emit exactly the documented bytes; misfitting values are refused."""
import copy
import posixpath

from . import core, asmsim, progs, refpack
from .simfs import SimFS

ID = 'C10'
LEVEL = 'exploration'
RULE = ('simulation target: include_bytes on SimFS - binary files (empty, 1 byte, all 256 values, 64 KiB, directive-looking text) adjacent to the '
        'main file, adjacent to an included file, in a sub-directory, in an -i directory, with same-named decoys (same or different size) in the '
        'cwd and elsewhere; every tree is assembled from several working directories through the API and the CLI, with labels before/after the '
        'blob; oracle = an independent reference packer (int.to_bytes, hand-written escape processor and UTF-8 encoder) computes the whole image '
        'and the label addresses.  Riding along (pure clauses, enumerated): every directive/format x boundary values '
        '{min-1,min,min+1,-1,0,1,smax,smax+1,umax,umax+1} + seeded values; strings over ASCII/escapes/Latin-1/BMP/astral.  '
        'non-trivial = an include_bytes blob was embedded from a non-cwd location, or a boundary value / non-ASCII string was judged; '
        'distinct = (kind, placement, cwd class, decoy kind, directive, boundary class, outcome)')
COMPONENTS = {'real': ['bronzebeard/asm.py (read_lines include_bytes lookup, lexing of string, resolve_sequences/packs/strings/include_bytes, cli_main)'],
              'stub': ['file system and cwd (SimFS, with size/content-changes-after-getsize fault kinds as observations)', 'reference packer sim/refpack.py']}
ASSUMPTIONS = ['only the documented two-character pack formats are generated (prefix < or > and one of bBhHiIlLqQ)',
               'characters that str.splitlines() treats as line ends (NEL, LS, PS, FS..) are not generated inside string literals',
               'the value/string clauses are pure functions of the text: they are enumerated here only as workload for the include_bytes simulation']
REQUIRED_REACH = {'quick': ['ib:embedded-from-non-cwd', 'val:boundary-judged', 'str:non-ascii-judged'],
                  'thorough': ['ib:embedded-from-non-cwd', 'val:boundary-judged', 'str:non-ascii-judged']}
EXPECTED_REACH = ['ib:ambiguous-twin', 'ib:decoy-same-size-in-cwd', 'ib:decoy-other-size-in-cwd', 'ib:in-inc-dir', 'ib:in-subdir', 'ib:adjacent-to-included-file',
                  'ib:empty-file', 'ib:all-256', 'ib:64k', 'ib:cli', 'val:misfit-refused', 'fsfault:getsize:grow-after', 'fsfault:getsize:swap-after']
CHUNK = 40


def worker_init():
    asmsim.init()


def parent_init(tier, seed):
    asmsim.init()


SEQ_KW = ['bytes', 'shorts', 'ints', 'longs', 'longlongs']
SHORT_KW = ['db', 'dh', 'dw', 'dd']
FMTS = [o + c for o in '<>' for c in 'bBhHiIlLqQ']


def boundaries(width):
    b = 8 * width
    return [('smin-1', -(1 << (b - 1)) - 1), ('smin', -(1 << (b - 1))), ('smin+1', -(1 << (b - 1)) + 1), ('-1', -1), ('0', 0), ('1', 1),
            ('smax', (1 << (b - 1)) - 1), ('smax+1', 1 << (b - 1)), ('umax', (1 << b) - 1), ('umax+1', 1 << b), ('2umax', (1 << (b + 1)) - 1),
            ('-umax', -((1 << b) - 1))]


def plan(tier, seed):
    specs = []
    for kw in SEQ_KW:
        for name, v in boundaries(refpack.SEQ_WIDTH[kw]):
            specs.append({'k': 'val', 'd': 'seq', 'kw': kw, 'b': name})
    for kw in SHORT_KW:
        for name, v in boundaries(refpack.SHORT_WIDTH[kw]):
            for st in ('lit', 'position', 'const', 'arith'):
                specs.append({'k': 'val', 'd': 'short', 'kw': kw, 'b': name, 'st': st})
    for fmt in FMTS:
        for name, v in boundaries(refpack.FMT_WIDTH[fmt[1].lower()]):
            for st in ('lit', 'position', 'const', 'arith'):
                specs.append({'k': 'val', 'd': 'pack', 'kw': fmt, 'b': name, 'st': st})
    specs.extend({'k': 'valr'} for _ in range(2000 if tier == 'quick' else 500000))
    specs.extend({'k': 'str'} for _ in range(4000 if tier == 'quick' else 1000000))
    specs.extend({'k': 'ib'} for _ in range(5000 if tier == 'quick' else 1500000))
    specs.extend({'k': 'ibf'} for _ in range(500 if tier == 'quick' else 100000))
    return specs


# --------------------------------------------------------------------------
# rendering items to source text

def fmt_int(r, v):
    c = r.random()
    if c < 0.6 or v < 0:
        return str(v)
    if c < 0.9:
        return hex(v)
    return bin(v) if v < (1 << 16) else hex(v)


def spell_value(r, v, style):
    """The same integer written as a literal, as %position(l0, V) (l0 is at address 0), through a constant, or as arithmetic."""
    if style == 'position':
        return '%%position(l0, %s)' % fmt_int(r, v)
    if style == 'position-paren':
        return '%%position(l0, %s)' % ('(%d)' % v)
    if style == 'const':
        return 'VALK'
    if style == 'char' and 33 <= v <= 126 and chr(v) not in "'\\#,()":      # (the lexer's own treatment of , ( ) # inside quotes is C11's business, not C10's)
        return "'%s'" % chr(v)
    if style == 'arith':
        return '%d + %d' % (v - 7, 7) if r.random() < 0.5 else '(%d) * 1' % v
    return fmt_int(r, v)


def render(r, items, blob_written):
    lines = []
    for it in items:
        op = it['op']
        if it.get('style') == 'const':
            lines.append('VALK = %d' % it['value'])
        if op == 'label':
            lines.append(it['name'] + ':')
        elif op == 'seq':
            lines.append('%s %s' % (it['kw'], ' '.join(fmt_int(r, v) for v in it['values'])))
        elif op == 'short':
            v = it['value']
            lines.append('%s %s' % (it['kw'], v[1] if isinstance(v, (list, tuple)) else spell_value(r, v, it.get('style'))))
        elif op == 'pack':
            lines.append('pack %s%s%s' % (it['fmt'], r.choice((' ', ', ')), spell_value(r, it['value'], it.get('style'))))
        elif op == 'string':
            lines.append('string ' + it['text'])
        elif op == 'blob':
            lines.append('include_bytes ' + blob_written[id(it)])
        elif op == 'align':
            lines.append('align %d' % it['n'])
    return lines


def rand_data_items(r, n, labels):
    items = []
    for _ in range(n):
        c = r.random()
        if c < 0.3:
            kw = r.choice(SEQ_KW)
            w = refpack.SEQ_WIDTH[kw] * 8
            items.append({'op': 'seq', 'kw': kw, 'values': [r.choice((0, 1, -1, (1 << w) - 1, -(1 << (w - 1)), r.randint(-(1 << (w - 1)), (1 << w) - 1)))
                                                            for _ in range(r.choice((1, 2, 3, 4, 4, 17, 40)))]})
        elif c < 0.5:
            kw = r.choice(SHORT_KW)
            w = refpack.SHORT_WIDTH[kw] * 8
            v = r.randint(-(1 << (w - 1)), (1 << w) - 1)
            if kw == 'dw' and labels and r.random() < 0.5:
                v = ['label', r.choice(labels)]
            items.append({'op': 'short', 'kw': kw, 'value': v})
        elif c < 0.65:
            fmt = r.choice(FMTS)
            w = refpack.FMT_WIDTH[fmt[1].lower()] * 8
            v = r.randint(-(1 << (w - 1)), (1 << (w - 1)) - 1) if fmt[1].islower() else r.randint(0, (1 << w) - 1)
            items.append({'op': 'pack', 'fmt': fmt, 'value': v})
        elif c < 0.8:
            items.append({'op': 'string', 'text': r.choice(('hello', 'a b  c', 'x\\ny', '"q"', '# not a comment', 'tab\\t.', 'z'))})
        else:
            items.append({'op': 'align', 'n': r.choice((2, 4, 8, 16))})
    return items


STR_POOLS = {
    'ascii': 'abcXYZ 019 !"#$%&\'()*+,-./:;<=>?@[]^_`{|}~\t  ',
    'latin1': 'éèüñßÆøÿ¡¿£©®±µ¶',
    'bmp': '中文日本語한국어ΩλЖक€→√∞\ufeff\u200b',
    'astral': '😀🚀𝄞𐍈🂡',
    # text that is not in Unicode normal form C: base letter + combining mark, marks out of canonical order, singletons, jamo
    'nonnfc': ['e\u0301', 'a\u0323\u0302', 'a\u0302\u0323', '\u212b', '\u2126', '\u1100\u1161', 'n\u0303', '\u2000'],
}
ESCAPES = ['\\n', '\\t', '\\r', '\\\\', '\\0', '\\101', '\\33', '\\7', '\\012', '\\N{BULLET}', '\\a', '\\b', '\\f', '\\v', '\\x41', '\\x7f', '\\"', "\\'", '\\u00e9', '\\u4e2d', '\\xe9', '\\xff', '\\U0001f600']


def rand_string(r):
    classes = r.choice((['ascii'], ['ascii'], ['ascii', 'esc'], ['latin1'], ['bmp'], ['astral'], ['nonnfc'], ['ascii', 'nonnfc'], ['ascii', 'latin1', 'esc'],
                        ['ascii', 'bmp', 'astral', 'esc'], ['esc']))
    out = []
    for _ in range(r.randint(1, 12)):
        c = r.choice(classes)
        out.append(r.choice(ESCAPES) if c == 'esc' else r.choice(STR_POOLS[c]))
    text = ''.join(out)
    if r.random() < 0.1:
        text = '  ' + text
    if r.random() < 0.1:
        text = text + '  # tail'
    if r.random() < 0.1:
        text += r.choice(('\\\\', '\\\\\\\\', '\\\\\\\\\\\\', 'x\\\\'))        # the text ends in one, two or three escaped backslashes
    nb = len(text) - len(text.rstrip('\\'))
    if nb % 2:
        text += 'n'
    return text, sorted(set(classes))


def blob_spec(r):
    c = r.random()
    if c < 0.1:
        return {'hex': ''}, 'empty'
    if c < 0.2:
        return {'hex': '%02x' % r.randrange(256)}, '1byte'
    if c < 0.3:
        return {'all256': 1}, 'all256'
    if c < 0.34:
        return {'rand': [r.randrange(1 << 30), r.choice((65536, 65537, 70000))]}, '64k'
    if c < 0.40:
        return {'hex': (b'line1\r\nline2\r\n\x1a\x00tail\xef\xbb\xbfbom\r' + bytes([r.randrange(256)])).hex()}, 'crlf'
    if c < 0.45:
        return {'text': 'db 1\ninclude x.asm\nstring hi\n# c\n'}, 'texty'
    return {'rand': [r.randrange(1 << 30), r.choice((2, 3, 5, 16, 100, 255, 256, 1000))]}, 'rand'


def make_scenario(spec, seed, idx):
    r = core.rng_for(ID, seed, idx)
    k = spec['k']
    if k in ('val', 'valr'):
        if k == 'val':
            d, kw = spec['d'], spec['kw']
            width = refpack.SEQ_WIDTH[kw] if d == 'seq' else refpack.SHORT_WIDTH[kw] if d == 'short' else refpack.FMT_WIDTH[kw[1].lower()]
            bname, v = [(n, x) for n, x in boundaries(width) if n == spec['b']][0]
        else:
            d = r.choice(('seq', 'short', 'pack'))
            kw = r.choice(SEQ_KW if d == 'seq' else SHORT_KW if d == 'short' else FMTS)
            width = refpack.SEQ_WIDTH[kw] if d == 'seq' else refpack.SHORT_WIDTH[kw] if d == 'short' else refpack.FMT_WIDTH[kw[1].lower()]
            b = 8 * width
            bname = 'random'
            v = r.choice((r.randint(-(1 << b), 1 << (b + 1)), r.randint(-(1 << (b - 1)) - 3, -(1 << (b - 1)) + 3), r.randint((1 << b) - 3, (1 << b) + 3),
                          r.randint((1 << (b - 1)) - 3, (1 << (b - 1)) + 3)))
        if d == 'seq':
            vals = [v]
            if r.random() < 0.5:
                vals = [r.randint(0, 100)] * r.randint(0, 2) + [v] + [r.randint(0, 100)] * r.randint(0, 2)
            item = {'op': 'seq', 'kw': kw, 'values': vals}
        elif d == 'short':
            item = {'op': 'short', 'kw': kw, 'value': v, 'style': r.choice(('lit', 'lit', 'position', 'position-paren', 'const', 'arith', 'char'))}
        else:
            item = {'op': 'pack', 'fmt': kw, 'value': v, 'style': r.choice(('lit', 'lit', 'position', 'position-paren', 'const', 'arith'))}
        if spec.get('st') and 'style' in item:
            item['style'] = spec['st']
        items = [{'op': 'label', 'name': 'l0'}, {'op': 'seq', 'kw': 'bytes', 'values': [0xAA]}, item, {'op': 'label', 'name': 'l1'},
                 {'op': 'seq', 'kw': 'bytes', 'values': [0x55]}]
        eol = '\r\n' if r.random() < 0.15 else '\n'
        text = eol.join(render(r, items, {})) + eol
        return {'kind': 'val', 'files': {'/w/proj/main.asm': text}, 'bins': {}, 'dirs': ['/w/proj'], 'main': '/w/proj/main.asm', 'inc_dirs': [],
                'items': items, 'runs': [{'via': r.choice(('api', 'api', 'text')), 'cwd': '/w/proj', 'compress': False}],
                'meta': {'d': d, 'kw': kw, 'b': bname, 'st': item.get('style', 'lit')}}
    if k == 'str':
        text, classes = rand_string(r)
        items = [{'op': 'label', 'name': 'l0'}, {'op': 'string', 'text': text}, {'op': 'label', 'name': 'l1'}, {'op': 'seq', 'kw': 'bytes', 'values': [0x55]}]
        eol = '\r\n' if r.random() < 0.2 else '\n'
        src = eol.join(render(r, items, {})) + eol
        return {'kind': 'str', 'files': {'/w/proj/main.asm': src}, 'bins': {}, 'dirs': ['/w/proj'], 'main': '/w/proj/main.asm', 'inc_dirs': [],
                'items': items, 'runs': [{'via': r.choice(('api', 'api', 'cli', 'text', 'text')), 'cwd': '/w/proj', 'compress': False}], 'meta': {'classes': classes}}
    # include_bytes placement scenarios
    main = '/w/proj/main.asm'
    inc_dirs = r.choice(([], ['/w/lib'], ['/w/lib', '/w/assets']))
    use_part = r.random() < 0.5
    part = None
    if use_part:
        part = r.choice(('/w/proj/sub/part.asm', '/w/proj/part.asm') + (('/w/lib/part.asm',) if inc_dirs else ()))
    bins, written, meta_places = {}, {}, []
    labels = ['l0', 'l1', 'l2', 'l3']

    def place_blob(owner_file):
        name = r.choice(('d1.bin', 'blob.dat', 'img.raw', 'Logo.BIN', 'IMG_01.Raw'))
        where = r.choice(('adjacent', 'adjacent', 'subdir') + (('inc',) if inc_dirs else ()))
        odir = posixpath.dirname(owner_file)
        if where == 'adjacent':
            path, w = odir + '/' + name, name
        elif where == 'subdir':
            sub = r.choice(('data', 'data', 'Assets'))
            path, w = odir + '/' + sub + '/' + name, sub + '/' + name
        else:
            path, w = r.choice(inc_dirs) + '/' + name, name
        # keep the search unambiguous: no other candidate of this include may exist
        for c in progs._cands(inc_dirs, odir, w):
            if c != path and c in bins:
                return None
        for (of, ww), pth in list(written_by_owner.items()):
            if path in progs._cands(inc_dirs, posixpath.dirname(of), ww) and pth != path:
                return None
        spec_b, kind_b = blob_spec(r)
        if path in bins:
            spec_b, kind_b = bins[path], 'reused'
        bins[path] = spec_b
        written_by_owner[(owner_file, w)] = path
        meta_places.append({'owner': 'main' if owner_file == main else 'included', 'where': where, 'content': kind_b})
        it = {'op': 'blob', 'path': path}
        written[id(it)] = w
        return it

    written_by_owner = {}
    main_items = [{'op': 'label', 'name': 'l0'}] + rand_data_items(r, r.randint(0, 2), labels)
    part_items = []
    for _ in range(r.choice((1, 1, 2))):
        owner = part if (use_part and r.random() < 0.6) else main
        it = place_blob(owner)
        if it is None:
            continue
        tgt = part_items if owner == part else main_items
        tgt.extend(rand_data_items(r, r.randint(0, 1), labels))
        tgt.append(it)
    if not any(i['op'] == 'blob' for i in main_items + part_items):
        it = place_blob(main)
        if it is not None:
            main_items.append(it)
    main_items.append({'op': 'label', 'name': 'l1'})
    main_items += rand_data_items(r, r.randint(0, 2), labels)
    if use_part:
        part_items = [{'op': 'label', 'name': 'l2'}] + part_items + [{'op': 'label', 'name': 'l3'}, {'op': 'short', 'kw': 'dw', 'value': ['label', 'l1']}]
    else:
        main_items.insert(1, {'op': 'label', 'name': 'l2'})
        main_items.append({'op': 'label', 'name': 'l3'})
    main_lines = render(r, main_items, written)
    files = {}
    if use_part:
        wpart = posixpath.relpath(part, posixpath.dirname(main)) if not part.startswith('/w/lib') else 'part.asm'
        pos = r.randint(1, len(main_lines))
        main_lines.insert(pos, 'include ' + wpart)
        files[part] = '\n'.join(render(r, part_items, written)) + '\n'
        assert len(main_lines) == len(main_items) + 1
        items = main_items[:pos] + part_items + main_items[pos:]
    else:
        items = main_items
    files[main] = '\n'.join(main_lines) + '\n'
    # decoys
    decoys = {}
    cwds = ['/w/proj', '/w/elsewhere', '/w']
    cands = set()
    for (of, w), pth in written_by_owner.items():
        cands.update(progs._cands(inc_dirs, posixpath.dirname(of), w))
    decoy_kinds = []
    for (of, w), pth in written_by_owner.items():
        for d in ('/w/elsewhere', '/w', '/w/proj', '/w/unrelated'):
            p = posixpath.normpath(posixpath.join(d, w))
            if p in cands or p in bins or p in decoys or r.random() < 0.4:
                continue
            if r.random() < 0.6:
                n = len(progs.bin_bytes(bins[pth]))
                decoys[p] = {'rand': [r.randrange(1 << 30), n]}
                decoy_kinds.append('same-size')
            else:
                decoys[p] = {'rand': [r.randrange(1 << 30), r.choice((1, 7, 300))]}
                decoy_kinds.append('other-size')
    twins = {}
    if inc_dirs and r.random() < 0.25:
        for (of, w), pth in sorted(written_by_owner.items()):
            if posixpath.dirname(pth) == posixpath.dirname(of) and '/' not in w:
                tp = r.choice(inc_dirs) + '/' + w
                if tp not in bins and tp not in decoys and not any(tp in progs._cands(inc_dirs, posixpath.dirname(o2), w2) and (o2, w2) != (of, w) for (o2, w2) in written_by_owner):
                    n = len(progs.bin_bytes(bins[pth]))
                    twins[tp] = {'rand': [r.randrange(1 << 30), n if r.random() < 0.7 else n + 3]}
                    twins_of = pth
                    break
    for (of, w), pth in sorted(written_by_owner.items()):
        if pth.lower() != pth and r.random() < 0.7:
            lp = posixpath.dirname(pth).rsplit('/', 1)[0] + '/' + posixpath.dirname(pth).rsplit('/', 1)[1].lower() + '/' + posixpath.basename(pth).lower() if r.random() < 0.3 else posixpath.dirname(pth) + '/' + posixpath.basename(pth).lower()
            if lp not in bins and lp not in decoys and lp not in twins:
                decoys[lp] = {'rand': [r.randrange(1 << 30), len(progs.bin_bytes(bins[pth]))]}
                decoy_kinds.append('case-twin')
    runs = []
    for cwd in cwds:
        runs.append({'via': 'api', 'cwd': cwd, 'compress': False, 'main_abs': r.random() < 0.7})
    runs.append({'via': 'cli', 'cwd': r.choice(cwds), 'compress': r.random() < 0.3, 'main_abs': r.random() < 0.5})
    scen = {'kind': 'ib', 'files': files, 'bins': bins, 'decoys': decoys, 'dirs': ['/w/proj', '/w/proj/sub', '/w/proj/data', '/w/proj/sub/data', '/w/lib', '/w/lib/data', '/w/proj/Assets', '/w/proj/assets', '/w/proj/sub/Assets', '/w/lib/Assets', '/w/lib/assets', '/w/proj/sub/assets',
                                                                                       '/w/assets', '/w/elsewhere', '/w/unrelated', '/w/out'],
            'main': main, 'inc_dirs': inc_dirs, 'items': items, 'runs': runs, 'meta': {'places': meta_places, 'decoys': sorted(set(decoy_kinds))},
            'fs_faults': [], 'twins': twins, 'twin_of': twins_of if twins else None}
    if k == 'ibf':
        scen['fs_faults'] = [{'op': 'getsize', 'n': 1, 'kind': r.choice(('grow-after', 'shrink-after', 'swap-after'))}]
    return scen


# --------------------------------------------------------------------------

def all_files(scen):
    out = {}
    for p, t in scen['files'].items():
        out[p] = t.encode('utf-8')
    for p, spec in (scen.get('bins') or {}).items():
        out[p] = progs.bin_bytes(spec)
    for p, spec in (scen.get('decoys') or {}).items():
        out[p] = progs.bin_bytes(spec)
    for p, spec in (scen.get('twins') or {}).items():
        out[p] = progs.bin_bytes(spec)
    return out


def run_one(scen, files, run, log, faults=None):
    cwd = run['cwd']
    main = scen['main'] if run.get('main_abs', True) else posixpath.relpath(scen['main'], cwd)
    fs = asmsim.make_fs(files, scen['dirs'] + [cwd, '/w/out'], cwd=cwd, faults=copy.deepcopy(faults or []))
    if run['via'] == 'text':
        # the source handed over as text (read the way open() would: universal newlines are NOT applied by the caller)
        out = asmsim.run_api(fs, {'target': scen['files'][scen['main']], 'compress': run['compress'], 'include_dirs': list(scen['inc_dirs'])}, log)
        return out, fs
    if run['via'] == 'api':
        out = asmsim.run_api(fs, {'target': main, 'compress': run['compress'], 'include_dirs': list(scen['inc_dirs'])}, log)
        return out, fs
    argv = (['-c'] if run['compress'] else [])
    for d in scen['inc_dirs']:
        argv += ['-i', d]
    argv += ['-o', '/w/out/o.bin', '-l', '/w/out/l.txt', main]
    x = asmsim.run_cli(fs, argv, log)
    if x['outcome'] != 'ok':
        return {'ok': False, 'exc': x['exc'] or x['outcome'], 'msg': x['msg']}, fs
    labels = {}
    for line in fs.files.get('/w/out/l.txt', b'').decode().split('\n'):
        if line.strip():
            kk, val = line.split()
            labels[kk] = int(val, 0)
    return {'ok': True, 'bytes': fs.files.get('/w/out/o.bin', b'').hex(), 'labels': labels}, fs


@asmsim.with_fallback
def run_scenario(scen, keep_events=False):
    res = core.Result()
    log = core.EventLog(keep=300 if keep_events else 0)
    files = all_files(scen)
    kind = scen['kind']
    try:
        want, want_labels = refpack.reference_image(scen['items'], files)
        misfit = None
    except refpack.Misfit as e:
        want, want_labels, misfit = None, None, str(e)
    meta = scen.get('meta', {})
    sig_out = []
    alt_wants = []
    if scen.get('twins'):
        # the name exists both adjacent and in an -i directory: the statement leaves the choice open, but size, content and the
        # labels after the blob must all come from ONE of the two files
        res.hit('ib:ambiguous-twin')
        for tp in scen['twins']:
            af = dict(files)
            af[scen['twin_of']] = files[tp]
            try:
                alt_wants.append(refpack.reference_image(scen['items'], af))
            except refpack.Misfit:
                pass
    for run in scen['runs']:
        out, fs = run_one(scen, files, run, log, scen.get('fs_faults'))
        for op, p, kd in fs.fired:
            res.hit('fsfault:%s:%s' % (op, kd))
        faulted = bool(fs.fired)
        cwdc = 'cwd-main-dir' if run['cwd'] == posixpath.dirname(scen['main']) else 'cwd-elsewhere'
        if run['via'] == 'cli':
            res.hit(kind + ':cli')
        if faulted:
            # size/content changed between the size probe and the read: observations only
            res.observe('toctou:%s:%s' % (fs.fired[0][2], 'ok' if out['ok'] else out.get('exc')))
            sig_out.append('toctou')
            continue
        if kind == 'val':
            dk = '%s:%s' % (meta['d'], meta['kw'])
            if misfit is not None:
                if out['ok']:
                    res.violate('misfit-accepted', '%s:%s' % (dk, meta['b']), 'value does not fit (%s) but the program assembled to %s; source=%r'
                                % (misfit, out['bytes'], scen['files'][scen['main']]))
                else:
                    res.hit('val:misfit-refused')
                res.hit('val:boundary-judged')
                res.nontrivial = True
                sig_out.append('misfit-' + ('accepted' if out['ok'] else 'refused'))
                continue
            if not out['ok']:
                res.violate('fitting-value-refused', '%s:%s' % (dk, meta['b']), 'value fits but the program was refused (%s: %s); source=%r'
                            % (out.get('exc'), (out.get('msg') or '')[:80], scen['files'][scen['main']]))
            elif bytes.fromhex(out['bytes']) != want or out['labels'] != want_labels:
                res.violate('wrong-bytes', '%s:%s' % (dk, meta['b']), 'got %s labels %s, documented encoding is %s labels %s; source=%r'
                            % (out['bytes'], out['labels'], want.hex(), want_labels, scen['files'][scen['main']]))
            res.hit('val:boundary-judged')
            res.nontrivial = True
            sig_out.append('fit')
            continue
        if kind == 'str':
            classes = meta['classes']
            nonascii = any(c in classes for c in ('latin1', 'bmp', 'astral', 'nonnfc')) or any(e in scen['items'][1]['text'] for e in ('\\u', '\\U', '\\xe9', '\\xff'))
            key = 'non-ascii' if any(ord(ch) > 127 for ch in scen['items'][1]['text']) else ('escape' if '\\' in scen['items'][1]['text'] else 'ascii')
            if not out['ok']:
                res.violate('string-refused', key, 'string literal refused (%s: %s); text=%r' % (out.get('exc'), (out.get('msg') or '')[:80], scen['items'][1]['text']))
            elif bytes.fromhex(out['bytes']) != want or out['labels'] != want_labels:
                res.violate('string-wrong-bytes', key, 'string %r gave %s, UTF-8 after escape processing is %s' % (scen['items'][1]['text'], out['bytes'], want.hex()))
            if nonascii:
                res.hit('str:non-ascii-judged')
                res.nontrivial = True
            res.hit('str:judged')
            sig_out.append(key)
            continue
        # include_bytes placement
        places = meta.get('places', [])
        if not out['ok']:
            res.violate('include-bytes-refused', '%s:%s:%s' % (run['via'], cwdc, out.get('exc')),
                        'program with include_bytes refused (%s: %s) from cwd %s although every blob is where the include search looks; places=%r'
                        % (out.get('exc'), (out.get('msg') or '')[:100], run['cwd'], places))
            sig_out.append('refused')
            continue
        got = bytes.fromhex(out['bytes'])
        if any(got == aw and out['labels'] == al for aw, al in alt_wants):
            res.hit('ib:twin-in-inc-dir-chosen')
            sig_out.append('ok-twin')
            continue
        if got != want:
            # diagnose: is it the image with a decoy's content?
            alt_hit = None
            for dp in (scen.get('decoys') or {}):
                alt_files = dict(files)
                for bp in scen['bins']:
                    if posixpath.basename(bp) == posixpath.basename(dp):
                        alt_files[bp] = files[dp]
                try:
                    alt, _ = refpack.reference_image(scen['items'], alt_files)
                except refpack.Misfit:
                    continue
                if alt == got:
                    alt_hit = dp
                    break
            res.violate('include-bytes-wrong-content', '%s:%s:%s' % (run['via'], cwdc, 'decoy-embedded' if alt_hit else 'other'),
                        'output differs from the reference image (cwd %s)%s; got %d bytes want %d' % (
                            run['cwd'], '; it contains the decoy %s instead of the file the include search finds' % alt_hit if alt_hit else '', len(got), len(want)))
        elif out['labels'] != want_labels:
            res.violate('include-bytes-wrong-labels', '%s:%s' % (run['via'], cwdc), 'labels %s, reference %s' % (out['labels'], want_labels))
        if cwdc == 'cwd-elsewhere':
            res.hit('ib:embedded-from-non-cwd')
            res.nontrivial = True
        sig_out.append('ok')
    if kind == 'ib':
        for pl in meta.get('places', []):
            if pl['where'] == 'inc':
                res.hit('ib:in-inc-dir')
            if pl['where'] == 'subdir':
                res.hit('ib:in-subdir')
            if pl['owner'] == 'included':
                res.hit('ib:adjacent-to-included-file')
            res.hit({'empty': 'ib:empty-file', 'all256': 'ib:all-256', '64k': 'ib:64k'}.get(pl['content'], 'ib:other-content'))
        for dk in meta.get('decoys', []):
            res.hit('ib:decoy-%s-in-cwd' % dk)
    res.sig = '%s|%s|%s' % (kind, repr(sorted(meta.items()))[:160], ','.join(sig_out))
    res.digest = log.digest()
    res.steps = log.seq
    if keep_events:
        res.events = log.events
    return res


def shrink(scen):
    if len(scen['runs']) > 1:
        for i in range(len(scen['runs'])):
            c = copy.deepcopy(scen)
            c['runs'] = [scen['runs'][i]]
            yield c
    for p in sorted(scen.get('decoys') or {}):
        c = copy.deepcopy(scen)
        del c['decoys'][p]
        yield c
    # drop non-blob, non-label items (source text and item list in step)
    if scen['kind'] == 'ib' and len(scen['files']) == 1:
        lines = scen['files'][scen['main']].rstrip('\n').split('\n')
        if len(lines) == len(scen['items']):
            for i, it in enumerate(scen['items']):
                if it['op'] in ('blob',):
                    continue
                if it['op'] == 'label' and any(isinstance(j.get('value'), (list, tuple)) and j['value'][1] == it['name'] for j in scen['items']):
                    continue
                c = copy.deepcopy(scen)
                del c['items'][i]
                c['files'][scen['main']] = '\n'.join(lines[:i] + lines[i + 1:]) + '\n'
                yield c
    for p, spec in sorted((scen.get('bins') or {}).items()):
        if spec != {'hex': '41'}:
            c = copy.deepcopy(scen)
            c['bins'][p] = {'hex': '41'}
            for dp in c.get('decoys') or {}:
                if posixpath.basename(dp) == posixpath.basename(p):
                    c['decoys'][dp] = {'hex': '42'}
            yield c


def extra_evidence(batch):
    return {'fault_kinds': 'decoy-in-cwd (same size / other size), blob only adjacent to its includer with cwd elsewhere, blob in -i dir / sub-directory; '
                           'size or content changed between getsize and open (observations only)'}
