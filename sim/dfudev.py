"""SimClock, SimDfuSe (executable reference model of a DFU 1.1 / DfuSe
bootloader as found on the GD32VF103) and a fake `usb` package.

The device is the *specified* device (DFU 1.1 appendix A, ST AN3156).  Every
request, reply, sleep, fault and monitor verdict is logged with the global
event sequence number of the run.
"""
import sys
import types
from array import array

FLASH_BASE = 0x08000000
PAGE = 1024
VARIANTS = {'B': 128, '8': 64, '6': 32, '4': 16}

DETACH, DNLOAD, UPLOAD, GETSTATUS, CLRSTATUS, GETSTATE, ABORT = range(7)
REQ_NAMES = ['DETACH', 'DNLOAD', 'UPLOAD', 'GETSTATUS', 'CLRSTATUS', 'GETSTATE', 'ABORT']

S_IDLE, S_DNLOAD_SYNC, S_DNBUSY, S_DNLOAD_IDLE, S_MANIFEST_SYNC, S_MANIFEST, S_MANIFEST_WAIT_RESET, S_UPLOAD_IDLE, S_ERROR = 2, 3, 4, 5, 6, 7, 8, 9, 10
STATE_NAMES = {2: 'dfuIDLE', 3: 'dfuDNLOAD_SYNC', 4: 'dfuDNBUSY', 5: 'dfuDNLOAD_IDLE', 6: 'dfuMANIFEST_SYNC',
               7: 'dfuMANIFEST', 8: 'dfuMANIFEST_WAIT_RESET', 9: 'dfuUPLOAD_IDLE', 10: 'dfuERROR'}

ST_OK, ST_ERR_TARGET, ST_ERR_WRITE, ST_ERR_ERASE, ST_ERR_ADDRESS, ST_ERR_STALLEDPKT = 0, 1, 3, 4, 8, 15

MAX_XFER = 4096


class SimBudgetExceeded(BaseException):
    """The host issued more requests than the step cap allows (spinning)."""


class USBError(IOError):
    def __init__(self, strerror='simulated usb error', error_code=None, errno=None):
        IOError.__init__(self, errno, strerror)
        self.backend_error_code = error_code


class NoBackendError(ValueError):
    pass


class USBTimeoutError(USBError):
    pass


class SimClock:
    """Virtual time.  Integer microseconds; only sleep() advances it."""

    def __init__(self, log):
        self.now_us = 0
        self.log = log
        self.sleeps = 0
        self.slept_us = 0
        self._pend_n = 0
        self._pend_us = 0

    def sleep(self, seconds):
        # kept cheap: a host may legitimately sleep a 4.6 h poll delay in millisecond slices (16 million calls);
        # consecutive sleeps are logged as one event when the next request arrives (flush)
        us = int(round(seconds * 1e6))
        if us < 0:
            raise ValueError('sleep length must be non-negative')
        if us == 0 and seconds > 0:
            us = 1              # a real sleep of a positive duration always lets time pass (deadline loops must terminate)
        self.now_us += us
        self._pend_n += 1
        self._pend_us += us

    def flush(self):
        if self._pend_n:
            self.sleeps += self._pend_n
            self.slept_us += self._pend_us
            self.log.add('sleep', self._pend_us, self._pend_n if self._pend_n < 3 else 'sliced')
            self._pend_n = 0
            self._pend_us = 0

    def time(self):
        return 1.7e9 + self.now_us / 1e6

    def monotonic(self):
        return self.now_us / 1e6

    perf_counter = monotonic

    def monotonic_ns(self):
        return self.now_us * 1000

    perf_counter_ns = monotonic_ns
    time_ns = monotonic_ns

    # anything else a refactor might use is served by the real module
    def __getattr__(self, name):
        import time as _t
        return getattr(_t, name)


def serial_for(variant, pad='3CJ'):
    """The mis-encoded UTF-16 form that dfu.py's GD32 quirk code undoes."""
    true_sn = pad[0] + pad[1] + variant + pad[2:]
    raw = true_sn.encode('utf-8')
    if len(raw) % 2:
        raw += b'X'
    return raw.decode('utf-16-le')


class SimDfuSe:
    """The simulated device.  `scen` keys used: variant, pad, start_error,
    sched, knobs, errors, lenient, faults."""

    idVendor = 0x28e9
    idProduct = 0x0189
    manufacturer = 'GDMicroelectronics'
    product = 'GD32 0x418 DFU Bootloade'

    def __init__(self, scen, clock, log, init_flash, res, step_cap):
        self.clock = clock
        self.log = log
        self.res = res
        self.page_count = VARIANTS[scen['variant']]
        self.size = self.page_count * PAGE
        self.serial_number = serial_for(scen['variant'], scen.get('pad', '3CJ'))
        self.flash = bytearray(init_flash)
        assert len(self.flash) == self.size
        se = scen.get('start_error')
        self.state = S_ERROR if se else S_IDLE
        self.status = se or ST_OK
        self.pointer = FLASH_BASE
        self.pending = None
        self.busy_until = 0
        self.gone = False
        sched = scen.get('sched', {})
        self.sched_init = sched.get('init', 0)
        self.sched_ops = sched.get('ops', {})
        self.sched_default = sched.get('default', [[], 0])
        self.idle_timeout = sched.get('idle', 0)       # bwPollTimeout on non-busy replies
        self.latency = list(scen.get('knobs', {}).get('latency') or [])     # per-transfer one-way delays in us, cycled
        self.container = scen.get('knobs', {}).get('container', 'array')
        self.istring = scen.get('knobs', {}).get('istring', 0)
        self.lenient = bool(scen.get('lenient'))
        self.errors = {(e['op'], e['n']): e['status'] for e in scen.get('errors', [])}
        self.faults = {f['at']: f for f in scen.get('faults', [])}
        self.step_cap = step_cap
        # history / monitors
        self.nreq = 0
        self.nops = 0
        self.op_counts = {'erase': 0, 'write': 0, 'setaddr': 0, 'masserase': 0, 'leave': 0, 'unprotect': 0}
        self.cur_polls = None
        self.last_reply_t = None       # (time of reply, requested timeout us, was_busy)
        self.monitor = []              # (cls, msg)
        self.page_state = ['dirty'] * self.page_count
        self.last_prog_clean = {}      # page -> bool
        self.erased_pages = []         # log of completed erases (page idx or 'mass')
        self.written_pages = []        # log of completed writes (page idx list)
        self.dnload_requests = 0
        self.errors_reported = []      # [(op, n, status)] reported to host via GETSTATUS
        self.errors_injected = 0
        self.first_getstatus_done = False

    # -- helpers ---------------------------------------------------------
    def flag(self, cls, msg):
        self.monitor.append((cls, msg))
        self.log.add('MONITOR', cls, msg)

    def stall(self, why):
        self.state = S_ERROR
        self.status = ST_ERR_STALLEDPKT
        self.pending = None
        self.log.add('STALL', why)
        self.res.hit('dev:stall')
        raise USBError('[Errno 32] Pipe error (%s)' % why, -9, 32)

    def reply(self, b):
        if self.container == 'bytes':
            return bytes(b)
        if self.container == 'list':
            return array('B', b)  # pyusb never returns a plain list; keep array
        return array('B', b)

    # -- the one entry point dfu.py uses ----------------------------------
    def ctrl_transfer(self, bmRequestType, bRequest, wValue=0, wIndex=0, data_or_wLength=None, timeout=None):
        # the request travels to the device, is answered there, and the answer travels back: the device's clock (busy
        # windows, requested delays) runs from the moment it answers, the host only learns of it one latency later
        if not self.latency:
            return self._transfer(bmRequestType, bRequest, wValue, wIndex, data_or_wLength, timeout)
        self.clock.flush()
        lat = self.latency[self.nreq % len(self.latency)]
        self.clock.now_us += lat
        try:
            return self._transfer(bmRequestType, bRequest, wValue, wIndex, data_or_wLength, timeout)
        finally:
            self.clock.now_us += lat

    def _transfer(self, bmRequestType, bRequest, wValue=0, wIndex=0, data_or_wLength=None, timeout=None):
        self.clock.flush()
        self.nreq += 1
        if self.nreq > self.step_cap:
            self.log.add('BUDGET')
            raise SimBudgetExceeded('more than %d requests' % self.step_cap)
        now = self.clock.now_us
        direction_in = bool(bmRequestType & 0x80)
        name = REQ_NAMES[bRequest] if 0 <= bRequest < 7 else 'REQ%d' % bRequest
        if direction_in:
            self.log.add('req', name, wValue, data_or_wLength, now)
        else:
            d = bytes(data_or_wLength or b'')
            self.log.add('req', name, wValue, len(d), d[:8].hex(), now)

        # monitor 2: every requested poll delay was waited for
        if self.last_reply_t is not None:
            t_reply, t_req, was_busy = self.last_reply_t
            if now - t_reply < t_req:
                cls = 'poll-delay-not-waited' if was_busy else 'idle-poll-delay-not-waited'
                self.flag(cls, 'device asked for %d us at t=%d, next request (%s) at t=%d' % (t_req, t_reply, name, now))
            self.last_reply_t = None

        # injected transport faults (C18 fault-injecting configuration)
        f = self.faults.get(self.nreq)
        if f is not None and f['kind'] == 'usberror':
            self.res.hit('fault:usberror')
            self.log.add('FAULT', 'usberror', self.nreq)
            raise USBTimeoutError('[Errno 110] Operation timed out', -7, 110)

        if self.gone:
            self.log.add('GONE')
            raise USBError('[Errno 19] No such device (it may have been disconnected)', -4, 19)

        # monitor 1: nothing but GETSTATUS while an operation is in flight, and not before busy_until
        if self.state in (S_DNLOAD_SYNC, S_DNBUSY) and bRequest != GETSTATUS:
            self.flag('request-while-busy', '%s while device in %s' % (name, STATE_NAMES[self.state]))
        if self.state == S_DNBUSY and bRequest == GETSTATUS and now < self.busy_until:
            self.flag('request-while-busy', 'GETSTATUS at t=%d but device busy until t=%d' % (now, self.busy_until))

        if bRequest == GETSTATUS and direction_in:
            return self.do_getstatus(now)
        if bRequest == DNLOAD and not direction_in:
            n = self.do_dnload(wValue, bytes(data_or_wLength or b''))
            if f is not None and f['kind'] == 'short' and n > 0:
                self.res.hit('fault:short')
                self.log.add('FAULT', 'short', self.nreq)
                return n - 1
            return n
        if bRequest == CLRSTATUS and not direction_in:
            if self.state != S_ERROR:
                self.stall('CLRSTATUS outside dfuERROR')
            self.state = S_IDLE
            self.status = ST_OK
            self.res.hit('dev:clrstatus')
            return 0
        if bRequest == GETSTATE and direction_in:
            return self.reply([self.state])
        if bRequest == ABORT and not direction_in:
            if self.state in (S_DNLOAD_SYNC, S_DNBUSY, S_MANIFEST, S_MANIFEST_SYNC, S_ERROR):
                self.stall('ABORT in %s' % STATE_NAMES[self.state])
            self.state = S_IDLE
            return 0
        if bRequest == UPLOAD and direction_in:
            return self.do_upload(wValue, int(data_or_wLength or 0))
        self.stall('unsupported request %s' % name)

    # -- requests ----------------------------------------------------------
    def do_getstatus(self, now):
        if self.state == S_DNBUSY and now >= self.busy_until:
            self.state = S_DNLOAD_SYNC
        if self.state == S_DNBUSY:
            # polled too early (already flagged): keep answering busy with the remaining time
            rem_ms = (self.busy_until - now + 999) // 1000
            return self.status_reply(ST_OK, rem_ms, S_DNBUSY, busy=True)
        if self.state == S_DNLOAD_SYNC:
            if self.cur_polls:
                t = self.cur_polls.pop(0)
                self.state = S_DNBUSY
                self.busy_until = now + t * 1000
                self.res.hit('dev:busy-poll')
                return self.status_reply(ST_OK, t, S_DNBUSY, busy=True)
            return self.complete_pending(now)
        if self.state == S_MANIFEST_SYNC:
            self.state = S_MANIFEST
            r = self.status_reply(ST_OK, self.idle_timeout, S_MANIFEST)
            self.gone = True
            self.res.hit('dev:manifest')
            return r
        t = self.idle_timeout
        if not self.first_getstatus_done:
            t = self.sched_init
        self.first_getstatus_done = True
        return self.status_reply(self.status, t, self.state)

    def status_reply(self, status, t_ms, state, busy=False):
        t_ms = max(0, min(int(t_ms), 0xFFFFFF))
        self.last_reply_t = (self.clock.now_us, t_ms * 1000, busy)
        self.log.add('rep', status, t_ms, STATE_NAMES.get(state, state))
        if t_ms:
            if t_ms >= 65536:
                self.res.hit('timeout:byte2')
            elif t_ms >= 256:
                self.res.hit('timeout:byte1')
            else:
                self.res.hit('timeout:byte0')
            if not busy:
                self.res.hit('timeout:on-nonbusy-reply')
        return self.reply([status, t_ms & 0xFF, (t_ms >> 8) & 0xFF, (t_ms >> 16) & 0xFF, state, self.istring])

    def do_dnload(self, wValue, data):
        self.dnload_requests += 1
        if self.state == S_ERROR and self.lenient:
            # non-compliant knob: the bootloader forgets the error on the next download
            self.state = S_IDLE
            self.status = ST_OK
            self.res.hit('dev:lenient-recover')
        if self.state not in (S_IDLE, S_DNLOAD_IDLE):
            self.stall('DNLOAD in %s' % STATE_NAMES[self.state])
        if len(data) > MAX_XFER:
            self.stall('DNLOAD longer than wTransferSize')
        op = None
        if wValue == 0:
            if len(data) == 5 and data[0] == 0x41:
                op = ('erase', int.from_bytes(data[1:5], 'little'))
            elif len(data) == 1 and data[0] == 0x41:
                op = ('masserase', None)
            elif len(data) == 5 and data[0] == 0x21:
                op = ('setaddr', int.from_bytes(data[1:5], 'little'))
            elif len(data) == 1 and data[0] == 0x92:
                op = ('unprotect', None)
            elif len(data) == 0 and self.state == S_DNLOAD_IDLE:
                op = ('leave', None)
            else:
                self.stall('unknown DfuSe command %s' % data[:1].hex())
        elif wValue == 1:
            self.stall('wBlockNum 1 is reserved')
        else:
            if len(data) == 0:
                self.stall('zero-length data block')
            op = ('write', (self.pointer + (wValue - 2) * len(data), data))
        kind = op[0]
        if kind == 'leave':
            self.state = S_MANIFEST_SYNC
            self.op_counts['leave'] += 1
            return 0
        n = self.op_counts[kind]
        self.op_counts[kind] += 1
        self.pending = (kind, n, op[1])
        ent = self.sched_ops.get(str(self.nops), self.sched_default)
        self.nops += 1
        self.cur_polls = list(ent[0])
        self.cur_final = ent[1]
        if len(self.cur_polls) == 0:
            self.res.hit('sched:zero-busy-polls')
        elif len(self.cur_polls) >= 3:
            self.res.hit('sched:three-or-more-busy-polls')
        self.state = S_DNLOAD_SYNC
        return len(data)

    def complete_pending(self, now):
        kind, n, arg = self.pending
        self.pending = None
        status = self.errors.get((kind, n), ST_OK)
        if status != ST_OK:
            self.errors_injected += 1
        end = FLASH_BASE + self.size
        if status == ST_OK:
            if kind == 'erase':
                if not (FLASH_BASE <= arg < end):
                    self.flag('address-outside-flash', 'erase of 0x%08x' % arg)
                    status = ST_ERR_ADDRESS
                elif arg % PAGE:
                    self.flag('erase-address-not-page-aligned', 'erase of 0x%08x' % arg)
                    status = ST_ERR_ADDRESS
                else:
                    p = (arg - FLASH_BASE) // PAGE
                    self.flash[p * PAGE:(p + 1) * PAGE] = b'\xff' * PAGE
                    self.page_state[p] = 'erased'
                    self.erased_pages.append(p)
            elif kind in ('masserase', 'unprotect'):
                self.flash[:] = b'\xff' * self.size
                self.page_state = ['erased'] * self.page_count
                self.erased_pages.append('mass')
                if kind == 'unprotect':
                    self.gone = True
            elif kind == 'setaddr':
                if not (FLASH_BASE <= arg < end):
                    self.flag('address-outside-flash', 'set-address 0x%08x' % arg)
                    status = ST_ERR_ADDRESS
                else:
                    self.pointer = arg
            elif kind == 'write':
                addr, data = arg
                if not (FLASH_BASE <= addr and addr + len(data) <= end):
                    self.flag('address-outside-flash', 'write of %d bytes at 0x%08x' % (len(data), addr))
                    status = ST_ERR_ADDRESS
                else:
                    off = addr - FLASH_BASE
                    pages = list(range(off // PAGE, (off + len(data) - 1) // PAGE + 1))
                    for p in pages:
                        self.last_prog_clean[p] = (self.page_state[p] == 'erased')
                        self.page_state[p] = 'programmed'
                    # NOR: programming can only clear bits
                    n = len(data)
                    v = int.from_bytes(self.flash[off:off + n], 'little') & int.from_bytes(data, 'little')
                    self.flash[off:off + n] = v.to_bytes(n, 'little')
                    self.written_pages.append(pages)
        self.log.add('complete', kind, n, status)
        if status != ST_OK:
            self.state = S_ERROR
            self.status = status
            self.errors_reported.append((kind, n, status))
            self.res.hit('dev:error-status-reported')
            return self.status_reply(status, self.cur_final, S_ERROR)
        self.state = S_DNLOAD_IDLE
        self.status = ST_OK
        return self.status_reply(ST_OK, self.cur_final, S_DNLOAD_IDLE)

    def do_upload(self, wValue, length):
        if self.state not in (S_IDLE, S_UPLOAD_IDLE):
            self.stall('UPLOAD in %s' % STATE_NAMES[self.state])
        self.res.hit('dev:upload')
        if wValue == 0:
            self.state = S_IDLE
            return self.reply([0x00, 0x21, 0x41][:length])
        if wValue == 1:
            self.stall('wBlockNum 1 is reserved')
        addr = self.pointer + (wValue - 2) * length
        off = addr - FLASH_BASE
        if off < 0 or off >= self.size:
            self.stall('UPLOAD outside flash')
        data = bytes(self.flash[off:off + length])
        self.state = S_UPLOAD_IDLE if len(data) == length else S_IDLE
        return self.reply(data)

    # pyusb Device surface a host might touch
    def set_configuration(self, *a, **k):
        pass

    def reset(self):
        pass

    def is_kernel_driver_active(self, *a):
        return False

    def detach_kernel_driver(self, *a):
        pass

    def attach_kernel_driver(self, *a):
        pass

    def get_active_configuration(self):
        return None


# --------------------------------------------------------------------------
# the fake `usb` package

_current_device = [None]
_find_calls = []


def set_device(dev):
    _current_device[0] = dev
    del _find_calls[:]


def _find(find_all=False, backend=None, custom_match=None, **kw):
    _find_calls.append(dict(kw))
    dev = _current_device[0]
    ok = dev is not None
    if ok:
        for k, v in kw.items():
            if hasattr(dev, k) and getattr(dev, k) != v:
                ok = False
    if ok and custom_match is not None and not custom_match(dev):
        ok = False
    if find_all:
        return iter([dev] if ok else [])
    return dev if ok else None


class _Backend:
    def __repr__(self):
        return '<simulated libusb1 backend>'


def install_fake_usb():
    """Place a fake `usb` package in sys.modules (before bronzebeard.dfu is imported)."""
    usb = types.ModuleType('usb')
    usb.__path__ = []
    core = types.ModuleType('usb.core')
    util = types.ModuleType('usb.util')
    backend = types.ModuleType('usb.backend')
    backend.__path__ = []
    libusb1 = types.ModuleType('usb.backend.libusb1')
    core.find = _find
    core.USBError = USBError
    core.USBTimeoutError = USBTimeoutError
    core.NoBackendError = NoBackendError
    core.Device = SimDfuSe
    usb.USBError = USBError
    libusb1.get_backend = lambda find_library=None: _Backend()
    util.dispose_resources = lambda dev: None
    util.claim_interface = lambda dev, i: None
    util.release_interface = lambda dev, i: None
    util.get_string = lambda dev, index, langid=None: ''
    usb.core, usb.util, usb.backend = core, util, backend
    backend.libusb1 = libusb1
    for m in (usb, core, util, backend, libusb1):
        sys.modules[m.__name__] = m
    return usb
