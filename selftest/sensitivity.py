"""Sensitivity self-test: apply one mutation to a scratch copy of the repo,
point a check at the copy (VERIF_REPO) and expect exit 1 with a VIOLATION line.

  selftest/sensitivity.py [--prop C18] [--only NAME] [--tier quick] [--pytest] [--seeded] [-j N]

Mutations come from mutants/specs.py (string replacements) and, with --seeded,
from seeded/<id>/patch.diff (independently written breaking changes).
The scratch copy lives under tempfile.mkdtemp and is always removed.
"""
import argparse
import concurrent.futures
import json
import os
import shutil
import subprocess
import sys
import tempfile
import time

VERIF = os.path.dirname(os.path.dirname(os.path.abspath(__file__)))
REPO = '/repo'
sys.path.insert(0, VERIF)


def make_copy(with_tests=False):
    d = tempfile.mkdtemp(prefix='bbmut-')
    shutil.copytree(os.path.join(REPO, 'bronzebeard'), os.path.join(d, 'bronzebeard'),
                    ignore=shutil.ignore_patterns('__pycache__', 'libs'))
    if with_tests:
        shutil.copytree(os.path.join(REPO, 'tests'), os.path.join(d, 'tests'), ignore=shutil.ignore_patterns('__pycache__'))
    return d


def apply_spec(d, m):
    for ed in m['edits']:
        path = os.path.join(d, ed['file'])
        with open(path) as f:
            s = f.read()
        cnt = s.count(ed['old'])
        if cnt != ed.get('count', 1):
            raise RuntimeError('mutant %s: %r occurs %d times in %s' % (m['name'], ed['old'][:50], cnt, ed['file']))
        with open(path, 'w') as f:
            f.write(s.replace(ed['old'], ed['new']))


def apply_patch(d, patch):
    # only the package matters to the checks (a seeded change may also touch docs/)
    subprocess.run(['git', 'apply', '--include=bronzebeard/*', '--include=tests/*', patch], cwd=d, check=True)


def run_one(m, tier, do_pytest, workers):
    t0 = time.time()
    d = make_copy(with_tests=do_pytest)
    try:
        if 'patch' in m:
            apply_patch(d, m['patch'])
        else:
            apply_spec(d, m)
        tests = None
        if do_pytest:
            env = dict(os.environ, PYTHONPATH=d, PYTHONDONTWRITEBYTECODE='1')
            p = subprocess.run(['/venv/bin/python', '-m', 'pytest', '-q', '-x', '-p', 'no:cacheprovider', 'tests'],
                               cwd=d, env=env, capture_output=True, text=True)
            tests = (p.returncode == 0, p.stdout.strip().splitlines()[-1] if p.stdout.strip() else '')
        res = {}
        for prop in m['props']:
            env = dict(os.environ, VERIF_REPO=d, VERIF_EVIDENCE_DIR=os.path.join(d, 'evidence'),
                       VERIF_REPLAY_DIR=os.path.join(d, 'replays'))
            cmd = [os.path.join(VERIF, 'check'), prop, '--tier', tier]
            if workers:
                cmd += ['--workers', str(workers)]
            p = subprocess.run(cmd, cwd=VERIF, env=env, capture_output=True, text=True)
            lines = [l for l in p.stdout.splitlines() if l.startswith(('VIOLATION', 'violation', 'HARNESS-ERROR'))]
            res[prop] = (p.returncode, lines[:4], p.stdout[-1500:] if p.returncode not in (0, 1) else '')
        return m['name'], res, tests, time.time() - t0
    finally:
        shutil.rmtree(d, ignore_errors=True)


def main():
    ap = argparse.ArgumentParser()
    ap.add_argument('--prop')
    ap.add_argument('--only')
    ap.add_argument('--tier', default='quick')
    ap.add_argument('--pytest', action='store_true')
    ap.add_argument('--seeded', action='store_true')
    ap.add_argument('-j', type=int, default=4)
    ap.add_argument('--json')
    ap.add_argument('--merge', action='store_true', help='merge the results into an existing --json report')
    args = ap.parse_args()
    from mutants.specs import MUTANTS
    muts = list(MUTANTS)
    if args.seeded:
        sd = os.path.join(VERIF, 'seeded')
        for name in sorted(os.listdir(sd)) if os.path.isdir(sd) else []:
            meta = os.path.join(sd, name, 'meta.json')
            if os.path.exists(meta):
                with open(meta) as f:
                    mj = json.load(f)
                muts.append({'name': 'seeded/' + name, 'props': [mj['property']], 'patch': os.path.join(sd, name, 'patch.diff'),
                             'expect': mj.get('expect', 'caught')})
    if args.prop:
        muts = [m for m in muts if args.prop in m['props']]
    if args.only:
        muts = [m for m in muts if args.only in m['name']]
    workers = max(1, 16 // args.j)
    bad = 0
    report = []
    with concurrent.futures.ThreadPoolExecutor(args.j) as ex:
        futs = [ex.submit(run_one, m, args.tier, args.pytest, workers) for m in muts]
        for m, fut in zip(muts, futs):
            name, res, tests, wall = fut.result()
            expect = m.get('expect', 'caught')
            for prop, (rc, lines, tail) in res.items():
                caught = rc == 1
                verdict = 'CAUGHT' if caught else ('MISSED' if rc == 0 else 'ERROR(rc=%d)' % rc)
                good = (caught and expect == 'caught') or (rc == 0 and expect == 'quiet')
                if not good:
                    bad += 1
                t = '' if tests is None else (' tests=%s(%s)' % ('pass' if tests[0] else 'FAIL', tests[1]))
                print('%-7s %-52s %-6s expect=%-6s %s %5.1fs%s' % (prop, name, verdict, expect, 'ok' if good else '<<<<', wall, t))
                for l in lines[:2]:
                    print('          ' + l[:200])
                if tail:
                    print(tail)
                report.append({'prop': prop, 'mutant': name, 'verdict': verdict, 'expect': expect, 'tests': tests})
            sys.stdout.flush()
    if args.json:
        if args.merge and os.path.exists(args.json):
            # update an existing report in place: entries of the (mutant, property) pairs just run replace the old ones
            with open(args.json) as f:
                old = json.load(f)
            keys = set((r['mutant'], r['prop']) for r in report)
            report = [r for r in old if (r['mutant'], r['prop']) not in keys] + report
        with open(args.json, 'w') as f:
            json.dump(report, f, indent=1)
    print('%d mutants, %d unexpected' % (len(muts), bad))
    return 1 if bad else 0


if __name__ == '__main__':
    sys.exit(main())
