"""C16 - assembly is a pure, deterministic function of its inputs.

History simulator: a generated sequence of assemble() calls (on related programs, including failing, crashed and
I/O-faulted ones), file edits and chdirs is executed in ONE process; every step's outcome must equal the outcome of the
same call on the same file-system snapshot executed in a pristine process (forked from a parent that imported
bronzebeard.asm and never called it).  Plus module-state invariants after every step, and re-execution of whole
histories in fresh interpreters under different PYTHONHASHSEED values.
"""
import copy
import functools
import hashlib
import json
import math
import os
import posixpath
import re
import subprocess
import sys

from . import core, asmsim, progs
from .simfs import SimFS

ID = 'C16'
LEVEL = 'exploration'
RULE = ('each run is one history: 4-24 operations (assemble(target, compress, include_dirs, constants?) on a pool of ~8 related programs - '
        'definer/user pairs sharing 4 label and 4 constant names, register-alias constants, include trees with include_bytes, programs failing in '
        'each pass; write_file edits of sources/included files; chdir; assemble torn down at the n-th executed line; assemble with a SimFS read '
        'fault) executed in one process on one persistent SimFS with a shared include_dirs list; oracle = refinement against the pristine-process '
        'reference (same call, same snapshot, forked from a process that never assembled) + invariants on module tables, earlier results, caller '
        'objects and function defaults after every step; a sample of histories is re-executed in fresh interpreters under PYTHONHASHSEED '
        '0/1/2/12345 plus one drawn 32-bit seed and CLI runs on a real temp tree.  non-trivial = history with >= 2 assemble steps of which one follows a failing, '
        'crashed or related call; distinct = sequence of (program kind, outcome class, fault kind)')
COMPONENTS = {'real': ['bronzebeard/asm.py (assemble and all passes; module tables REGISTERS/INSTRUCTIONS/KEYWORDS/...)', 'cli_main under different PYTHONHASHSEED (real file system, subprocess)'],
              'stub': ['file system and cwd (SimFS, persistent across the history)', 'pristine-process reference obtained by fork']}
ASSUMPTIONS = ['a non-empty constants argument is an input (the baseline receives an equal copy)', 'threads are not simulated: C16 speaks of call histories in one process',
               'outcome comparison includes exception text (addresses normalised), so the reference must be the same code, which the fork guarantees']
REQUIRED_REACH = {'quick': ['step:assemble-after-failure', 'step:assemble-after-crash', 'step:pair-user-after-definer', 'hashseed:interpreters'],
                  'thorough': ['step:assemble-after-failure', 'step:assemble-after-crash', 'step:pair-user-after-definer', 'hashseed:interpreters']}
EXPECTED_REACH = ['step:after-write', 'step:after-chdir', 'step:fsfault-fired', 'step:crash-fired', 'step:seeded-constants', 'step:source-string',
                  'step:include-tree', 'hashseed:cli-real']
CHUNK = 8
CHUNK_CAP_S = 900
HASHSEEDS = ['0', '1', '2', '12345', 'random']


def worker_init():
    asmsim.init()


def parent_init(tier, seed):
    asmsim.init()


def plan(tier, seed):
    specs = [{'k': 'h'} for _ in range(1500 if tier == 'quick' else 150000)]
    specs += [{'k': 'hs'} for _ in range(64 if tier == 'quick' else 1500)]
    specs += [{'k': 'hscli'} for _ in range(12 if tier == 'quick' else 200)]
    return specs


# --------------------------------------------------------------------------
# pool of related programs

L = ['la', 'lb', 'fade', 'cafe']         # two of them spelled with hex letters only
K = ['KA', 'KB', 'ADC0', 'BEEF', 'add', 'li']             # ... and two that are also mnemonics


def pool_programs(r):
    """~8 programs sharing label/constant/file names; returns (files, pool) where pool entries are
    {'kind', 'target' (path or source text), 'is_path'}."""
    files = {}
    pool = []
    lab, lab2 = r.sample(L, 2)
    kon, kon2 = r.sample(K, 2)
    val = r.randint(1, 2000)
    definer = '%s = %d\n%s = %s + 1\n%s:\n    addi t0, t0, %s\n    nop\n%s:\n    j %s\n    beq t0, t1, %s\n' % (kon, val, kon2, kon, lab, kon, lab2, lab, lab2)
    user = '    addi t1, t1, %s\n    j %s\n    nop\n    dw %s\n' % (kon, lab2, lab)
    user_labels_only = 'start:\n    call %s\n    nop\n    jal ra, %s\n' % (lab, lab2)
    alias_def = 'RX = t0\n%s:\n    addi RX, RX, 1\n    add RX, RX, RX\n' % lab
    alias_user = '    addi RX, RX, 2\n    sub s0, s0, RX\n'
    shifted = '    nop\n    nop\n%s:\n    nop\n%s:\n    addi sp, sp, 16\n    beq x8, x0, %s\n    jal x0, %s\n' % (lab, lab2, lab, lab2)
    compressy = '%s:\n    addi sp, sp, 16\n    addi x8, x2, 4\n    add x1, x0, x2\n    lui t0, 1\n    lui t0, 0xfffff\n    addi t0, t0, 1\n    lw x8, 0(x9)\n%s:\n    sw ra, 4(sp)\n    j %s\n    bnez s0, %s\n' % (lab, lab2, lab, lab2)
    redefine = '%s = %d\n%s:\n    addi t0, t0, %s\n' % (kon, (val + 7) % 2000, lab2, kon)
    clash = '%s = %d\n    nop\n%s:\n    addi t0, t0, %s\n    dw %s\n    li t1, %s\n%s:\n    lw a0, %s(sp)\n' % (kon, val, kon, kon, kon, kon, lab, kon)
    blobprog = '%s:\n    nop\ninclude_bytes blob.dat\nalign 4\n%s:\n    j %s\n    dw %s\n' % (lab, lab2, lab, lab2)
    li_small = '%s = 5\n    li t0, %s\n%s:\n    li t1, %s + 1\n    j %s\n' % (kon2, kon2, lab, kon2, lab)
    li_big = '%s = 0x12345\n    li t0, %s\n%s:\n    li t1, %s + 1\n    j %s\n' % (kon2, kon2, lab, kon2, lab)
    multi_alias = 'RA1 = t0\nRB1 = s0\nRC1 = a5\n%s:\n%s:\n    add RA1, RB1, RC1\n    sub RB1, RB1, RC1\n    sw RC1, 4(RB1)\n    beq RB1, x0, %s\n    jal x0, %s\n' % (lab, lab2, lab, lab2)
    walrus_def = '%s = [nleak := %d for _ in [0]][0] * 4\n%s:\n    addi t0, t0, %s\n' % (kon, val % 500, lab, kon)
    walrus_use = '%s:\n    addi t0, t0, nleak\n    nop\n' % lab
    upper_reg = '%s:\n    addi SP, SP, 16\n    add A0, A0, X5\n    jal RA, %s\n' % (lab, lab)
    upper_const = 'SP = 5\nA0 = 7\nX5 = SP + A0\n%s:\n    addi t0, t0, SP\n    addi t1, t1, X5\n' % lab
    # identical programs except for one small integer: anything memoised by a key that conflates nearby values
    # (hash(-1) == hash(-2) in CPython; 0 == False; 1 == True == 1.0) shows when one follows the other
    tmpl = '%s:\n    addi t0, t0, {v}\n    andi s0, s0, {v}\n    xori a0, a1, {v}\n    lw a0, {v}(sp)\n    sw t1, {v}(s1)\n    slti t2, t2, {v}\n    dw {v}\n    db {v}\n' % lab
    imm_a = tmpl.replace('{v}', '-1')
    imm_b = tmpl.replace('{v}', '-2')
    imm_c = tmpl.replace('{v}', r.choice(('0', '1')))
    entries = [('clash', clash), ('blob', blobprog), ('imm-a', imm_a), ('imm-b', imm_b), ('imm-c', imm_c), ('upper-reg', upper_reg), ('upper-const', upper_const), ('walrus-definer', walrus_def), ('walrus-user', walrus_use), ('li-small', li_small), ('li-big', li_big), ('multi-alias', multi_alias), ('definer', definer), ('user', user), ('user-labels', user_labels_only), ('alias-definer', alias_def), ('alias-user', alias_user),
               ('shifted', shifted), ('compressy', compressy), ('redefine', redefine)]
    # failing programs, one per fault class
    for cls in r.sample(sorted(c for c in progs.FAULTS if c != 'duplicate-label'), 3):
        t = r.choice(progs.FAULTS[cls]).replace('{label}', lab)
        entries.append(('fail-' + cls, '%s:\n    nop\n%s\nalign 4\n    addi t0, t0, 1\n' % (lab, t)))
    if r.random() < 0.35:
        # two long programs: many objects are created and freed, so that anything keyed by id() or by object identity across
        # calls has every chance to meet a recycled address
        regs = ['x5', 'x6', 'x7', 'x28', 'x29', 'x30', 'x31']
        big_nc = '\n'.join('    %s %s, %s, %s' % (r.choice(('add', 'mul', 'xor', 'sltu', 'div')), r.choice(regs), r.choice(regs), r.choice(regs)) for _ in range(140)) + '\n'
        big_c = '%s:\n' % lab + '\n'.join(r.choice(('    addi s0, s0, 1', '    add s0, s0, s1', '    lw a0, 4(s1)', '    sw a0, 8(sp)', '    and a0, a0, a1', '    addi sp, sp, 16',
                                                        '    slli t0, t0, 3', '    lui t0, 1', '    sub s1, s1, a0', '    addi t1, x0, 5')) for _ in range(140)) + '\n    j %s\n' % lab
        entries += [('big-nc', big_nc), ('big-c', big_c)]
    for i, (kind, text) in enumerate(entries):
        if r.random() < 0.55 or kind == 'blob':
            p = '/w/proj/p%d.asm' % i
            files[p] = text
            pool.append({'kind': kind, 'target': p, 'is_path': True})
        else:
            pool.append({'kind': kind, 'target': text, 'is_path': False})
    # an include tree (with include_bytes) whose leaf defines symbols other programs use
    tree = progs.gen_tree(r, max_depth=2, allow_bytes=True)
    if r.random() < 0.5:
        from . import c14
        c14.add_twin(r, tree)       # the same name adjacent and in an -i directory: whichever wins must not depend on the hash seed
    for p, t in tree['files'].items():
        files[p] = t
    bins = dict(tree.get('bins') or {})
    bins['/w/proj/blob.dat'] = {'rand': [r.randrange(1 << 30), r.choice((1, 4, 16, 33))]}
    pool.append({'kind': 'tree', 'target': tree['main'], 'is_path': True, 'inc_dirs': tree['inc_dirs']})
    # a string source that includes a file by name (resolved against the cwd: the cwd is an input)
    files['/w/proj/inc_defs.asm'] = '%s = %d\n' % (kon, val)
    pool.append({'kind': 'string-including', 'target': 'include inc_defs.asm\n    addi t0, t0, %s\n' % kon, 'is_path': False})
    return files, bins, pool, sorted(set(progs.LAYOUT_DIRS + ['/w/proj'])), tree


def draw_inject(r):
    c = r.random()
    if c < 0.62:
        return None
    if c < 0.88:
        return {'kind': 'line', 'n': max(1, int(math.exp(r.uniform(0, math.log(5000)))))}
    return {'kind': 'fs', 'faults': [{'op': r.choice(('open-r', 'open-r', 'exists', 'getsize')), 'n': r.randint(1, 4),
                                      'kind': r.choice(('EIO', 'EACCES', 'ENOENT', 'lie-missing', 'grow-after'))}]}


def make_history(r, nsteps=None):
    files, bins, pool, dirs, tree = pool_programs(r)
    nsteps = nsteps or r.randint(4, 24)
    ops = []
    shared_inc = r.choice(([], ['/w/inc1'], ['/w/inc1', '/w/other/inc2'], list(tree['inc_dirs'])))
    editable = sorted(p for p in files)
    cur_len = {}
    for _ in range(nsteps):
        c = r.random()
        if c < 0.78:
            i = r.randrange(len(pool))
            if r.random() < 0.2:
                i = r.choice([j for j, p in enumerate(pool) if p['kind'] in ('blob', 'clash', 'tree')])
            bigs = [j for j, p in enumerate(pool) if p['kind'].startswith('big-')]
            if bigs and r.random() < 0.15:
                i = r.choice(bigs)
            # bias towards pairs: after a definer, run a user
            if ops and ops[-1]['op'] == 'assemble' and r.random() < 0.35:
                prev = pool[ops[-1]['prog']]['kind']
                want = {'definer': ('user', 'user-labels', 'redefine'), 'alias-definer': ('alias-user',), 'tree': ('user', 'user-labels'),
                        'li-small': ('li-big',), 'li-big': ('li-small',), 'walrus-definer': ('walrus-user',), 'upper-reg': ('upper-const',), 'upper-const': ('upper-reg',), 'imm-a': ('imm-b', 'imm-c'), 'imm-b': ('imm-a', 'imm-c'), 'imm-c': ('imm-a', 'imm-b'), 'big-nc': ('big-c',), 'big-c': ('big-nc', 'big-c'), 'multi-alias': ('alias-user', 'user-labels')}.get(prev)
                if want:
                    cands = [j for j, p in enumerate(pool) if p['kind'] in want]
                    if cands:
                        i = r.choice(cands)
            dicts = r.choice(('fresh', 'fresh', 'none', 'seeded'))
            op = {'op': 'assemble', 'prog': i, 'compress': (r.random() < 0.5) or (pool[i]['kind'].startswith('big-') and r.random() < 0.8), 'inc': r.choice(('shared', 'shared', 'none', 'own')),
                  'dicts': dicts, 'inject': draw_inject(r)}
            if dicts == 'seeded':
                op['seed_consts'] = {k: r.randint(0, 2000) for k in r.sample(K, r.randint(1, 3))} if r.random() < 0.7 else {'SEEDED': 5, 'ALSO': 6}
                if r.random() < 0.5:
                    # labels the caller already knows (e.g. from a previous build), in no particular order
                    op['seed_labels'] = {k: r.randrange(0, 64, 4) for k in r.sample(L, r.randint(1, 4))}
            ops.append(op)
            if pool[i]['kind'].startswith('fail-') and pool[i]['is_path'] and r.random() < 0.5:
                # the edit-compile cycle: the call fails, the user repairs the line (and touches two immediates), assembles again
                ops.append({'op': 'write', 'path': pool[i]['target'], 'edit': 'fix-fault', 'arg': r.randint(0, 10 ** 6)})
                again = dict(op)
                again['inject'] = None
                ops.append(again)
        elif c < 0.82 and ops and ops[-1]['op'] == 'assemble':
            # the caller does what it likes with what it got back: scribbles over the returned buffer and dictionaries,
            # then (often) makes the very same call again
            ops.append({'op': 'mutate'})
            if r.random() < 0.7:
                again = dict(ops[-2])
                again['inject'] = None
                ops.append(again)
        elif c < 0.9:
            incl = sorted(set(i['target'] for i in tree['includes']))
            if incl and r.random() < 0.2:
                # a file disappears, or a same-named file appears earlier on the search path
                t = r.choice(incl)
                if r.random() < 0.5 or not shared_inc:
                    ops.append({'op': 'rm', 'path': t})
                else:
                    ops.append({'op': 'create', 'path': r.choice(shared_inc) + '/' + posixpath.basename(t), 'like': t})
                continue
            if bins and r.random() < 0.3:
                bp = r.choice(sorted(bins))
                if bp not in cur_len:
                    cur_len[bp] = len(progs.bin_bytes(bins[bp]))
                # same length (content-only change) or a new length
                n = cur_len[bp] if r.random() < 0.5 else r.choice((0, 1, 4, 16, 33, 300))
                cur_len[bp] = n
                ops.append({'op': 'writebin', 'path': bp, 'spec': {'rand': [r.randrange(1 << 30), n]}})
                users = [j for j, p in enumerate(pool) if p['kind'] in ('blob', 'tree')]
                if users and r.random() < 0.7:
                    ops.append({'op': 'assemble', 'prog': r.choice(users), 'compress': r.random() < 0.5, 'inc': 'own', 'dicts': 'fresh', 'inject': None})
                continue
            # bias edits towards files of the program assembled last, so that a stale cache has something to be stale about
            p = r.choice(editable)
            if ops and ops[-1]['op'] == 'assemble' and pool[ops[-1]['prog']]['is_path'] and r.random() < 0.5:
                p = pool[ops[-1]['prog']]['target']
            kind = r.choice(('append', 'prepend-const', 'drop-line', 'replace'))
            ops.append({'op': 'write', 'path': p, 'edit': kind, 'arg': r.randint(0, 10 ** 6)})
            if r.random() < 0.5 and ops[-2:-1] and ops[-2]['op'] == 'assemble':
                again = dict(ops[-2])
                again['inject'] = None
                ops.append(again)
        else:
            ops.append({'op': 'chdir', 'dir': r.choice(('/w/proj', '/w', '/w/elsewhere', '/w/proj/sub'))})
    return {'kind': 'h', 'files': files, 'bins': bins, 'dirs': dirs, 'cwd0': r.choice(('/w/proj', '/w/proj', '/w')), 'pool': pool,
            'shared_inc': shared_inc, 'ops': ops}


def make_scenario(spec, seed, idx):
    r = core.rng_for(ID, seed, idx)
    k = spec['k']
    if k == 'h':
        return make_history(r)
    if k == 'hs':
        scen = make_history(r, nsteps=r.randint(6, 14))
        # hash-seed runs: no torn-down calls (line counts are compared elsewhere), keep faults
        for op in scen['ops']:
            if op['op'] == 'assemble' and op.get('inject') and op['inject']['kind'] == 'line':
                op['inject'] = None
        scen['kind'] = 'hs'
        # explicit seeds only: a violation seen under PYTHONHASHSEED=random could not be replayed
        scen['hashseeds'] = r.sample(HASHSEEDS[:-1], 2) + [str(r.randrange(3, 2 ** 32 - 1))]
        return scen
    tree = progs.gen_tree(r, max_depth=2)
    argv = (['-c'] if r.random() < 0.7 else []) + ['-l', 'labels.txt', '-o', 'o.bin', '--hex-offset', '0x08000000']
    for d in tree['inc_dirs']:
        argv += ['-i', d]
    argv.append(tree['main'])
    return {'kind': 'hscli', 'tree': tree, 'argv': argv, 'cwd': '/w/proj', 'hashseeds': r.sample(HASHSEEDS[:-1], 2) + [str(r.randrange(3, 2 ** 32 - 1))]}


# --------------------------------------------------------------------------
# execution

def apply_edit(text, kind, arg):
    lines = text.split('\n')
    if kind == 'append':
        return text + ('' if text.endswith('\n') else '\n') + '    addi x0, x0, %d\n' % (arg % 2048)
    if kind == 'prepend-const':
        return 'EDIT%d = %d\n' % (arg % 3, arg % 2048) + text
    if kind == 'drop-line' and len(lines) > 2:
        i = arg % len(lines)
        if not lines[i].lower().startswith('include') and not lines[i].strip().endswith(':') and '=' not in lines[i]:
            del lines[i]
        return '\n'.join(lines)
    if kind == 'fix-fault':
        # pool shape of failing programs: label / nop / <faulty line> / align 4 / addi t0, t0, 1
        if len(lines) >= 5:
            lines[1] = '    addi x0, x0, %d' % (1 + arg % 5)
            lines[2] = '    addi x0, x0, 0'
            lines[4] = '    addi t0, t0, %d' % (33 + arg % 100)
        return '\n'.join(lines)
    if kind == 'replace':
        return text.replace('nop', 'addi x0, x0, %d' % (arg % 7), 1)
    return text


def files_bytes(scen_files, bins):
    out = {p: (t.encode('utf-8') if isinstance(t, str) else t) for p, t in scen_files.items()}
    for p, spec in bins.items():
        out[p] = progs.bin_bytes(spec)
    return out


ADDR = re.compile(r'0x[0-9a-fA-F]{6,}')


def norm_outcome(out):
    if out['ok']:
        return {'ok': True, 'bytes': out['bytes'], 'labels': out['labels'], 'constants': out['constants']}
    return {'ok': False, 'exc': out['exc'], 'msg': ADDR.sub('0xADDR', out.get('msg') or ''), 'file': out.get('file'), 'line': out.get('line')}


def call_of(scen, op, shared_inc_obj):
    prog = scen['pool'][op['prog']]
    call = {'target': prog['target'], 'compress': op['compress']}
    if op['inc'] == 'shared':
        call['include_dirs'] = shared_inc_obj
    elif op['inc'] == 'own':
        call['include_dirs'] = list(prog.get('inc_dirs') or scen['shared_inc'])
    else:
        call['include_dirs'] = None
    if op['dicts'] == 'none':
        call['pass_dicts'] = False
    elif op['dicts'] == 'seeded':
        call['constants'] = dict(op.get('seed_consts') or {})
        if op.get('seed_labels'):
            call['labels'] = dict(op['seed_labels'])
    return call


def freeze(obj, depth=0):
    if depth > 6:
        return repr(type(obj))
    if isinstance(obj, dict):
        return ('dict', tuple(sorted((repr(k), freeze(v, depth + 1)) for k, v in obj.items())))
    if isinstance(obj, (set, frozenset)):
        return ('set', tuple(sorted(repr(x) for x in obj)))
    if isinstance(obj, (list, tuple)):
        return (type(obj).__name__, tuple(freeze(x, depth + 1) for x in obj))
    if isinstance(obj, functools.partial):
        return ('partial', getattr(obj.func, '__qualname__', repr(obj.func)), freeze(obj.args, depth + 1), freeze(obj.keywords, depth + 1))
    if callable(obj):
        return ('callable', getattr(obj, '__qualname__', type(obj).__name__))
    if isinstance(obj, (int, str, bytes, float, type(None), bool)):
        return repr(obj)
    return ('obj', type(obj).__name__)


def module_tables():
    asm = asmsim.asm
    out = {}
    for name, val in vars(asm).items():
        if name.startswith('__') or name in ('os', 'open'):
            continue
        if isinstance(val, (dict, set, frozenset, list, tuple)) and not name.startswith('_abc'):
            out[name] = hashlib.sha256(repr(freeze(val)).encode()).hexdigest()[:12]
    fn = getattr(asm.assemble, '__wrapped__', asm.assemble)
    out['assemble.__defaults__'] = repr((fn.__defaults__, freeze(fn.__kwdefaults__)))
    rl = getattr(asm, 'read_lines', None)
    if rl is not None:
        out['read_lines.__defaults__'] = repr((rl.__defaults__, freeze(rl.__kwdefaults__)))
    return out


SEMANTIC_TABLES = ('REGISTERS', 'INSTRUCTIONS', 'KEYWORDS', 'PSEUDO_INSTRUCTIONS', 'BASE_OFFSET_INSTRUCTIONS', 'NUMERIC_SEQUENCE_NAMES',
                   'SHORTHAND_PACK_NAMES', 'assemble.__defaults__', 'read_lines.__defaults__')


def is_semantic_table(name):
    # exactly the tables of the assembler as it stands: the *_TYPE_INSTRUCTIONS name sets, FENCE_INSTRUCTIONS and the
    # named ones; a new module-level container (whatever its name) is a cache to be judged by its effect
    return name in SEMANTIC_TABLES or name.endswith('_TYPE_INSTRUCTIONS') or name == 'FENCE_INSTRUCTIONS'


def run_history(scen):
    """Executed in ONE process (a forked child): returns per-step records."""
    asmsim.init()
    log = core.EventLog(keep=400)
    fs = asmsim.make_fs(files_bytes(scen['files'], scen['bins']), scen['dirs'], cwd=scen['cwd0'])
    shared_inc = list(scen['shared_inc'])
    shared_inc_copy = list(shared_inc)
    tables0 = module_tables()
    handed = []          # (step, kind, obj, copy)
    last_objs = None
    steps = []
    inv = []
    for si, op in enumerate(scen['ops']):
        if op['op'] == 'write':
            old = (fs.files.get(op['path']) or b'').decode('utf-8')
            fs.put(op['path'], apply_edit(old, op['edit'], op['arg']))
            log.add('write', op['path'], op['edit'])
            steps.append(None)
            continue
        if op['op'] == 'mutate':
            if last_objs is not None:
                raw, c_o, l_o = last_objs
                try:
                    if raw is not None and len(raw):
                        raw[0] = (raw[0] + 1) % 256
                        raw.extend(b'\xee\xee')
                except TypeError:
                    pass                # an immutable bytes object: nothing to scribble on
                if l_o is not None:
                    l_o.clear()
                    l_o['scribbled'] = 4
                if c_o is not None:
                    c_o['SCRIBBLED'] = 1
                    for k in list(c_o)[:1]:
                        c_o[k] = 999
                # the harness's own copies follow the caller's edits (only edits made by LATER calls are violations)
                for h in handed:
                    if h[2] is l_o or h[2] is c_o:
                        h[3].clear()
                        h[3].update(h[2])
            log.add('mutate')
            steps.append(None)
            continue
        if op['op'] == 'rm':
            fs.files.pop(op['path'], None)
            log.add('rm', op['path'])
            steps.append(None)
            continue
        if op['op'] == 'create':
            fs.put(op['path'], (fs.files.get(op['like']) or b'').decode('utf-8').rstrip('\n') + '\n    xori t0, t0, 1\n')
            log.add('create', op['path'])
            steps.append(None)
            continue
        if op['op'] == 'writebin':
            fs.put(op['path'], progs.bin_bytes(op['spec']))
            log.add('writebin', op['path'])
            steps.append(None)
            continue
        if op['op'] == 'chdir':
            fs.cwd = op['dir']
            fs.mkdirs(op['dir'])
            log.add('chdir', op['dir'])
            steps.append(None)
            continue
        call = call_of(scen, op, shared_inc)
        inj = op.get('inject')
        fs.faults = copy.deepcopy(inj['faults']) if inj and inj['kind'] == 'fs' else []
        fs.fired = []
        before_files = dict(fs.files) if fs.faults else None
        out = asmsim.run_api(fs, call, log, inject=inj if inj and inj['kind'] == 'line' else None)
        rec = norm_outcome(out)
        rec['fs_fired'] = len(fs.fired)
        fs.faults = []
        if before_files is not None:
            # injected TOCTOU faults change a file *during* the call; the environment is put back afterwards so that the
            # snapshot later steps (and their references) see is the one the operations describe
            fs.files = before_files
        steps.append(rec)
        c_obj, l_obj = out.get('objs', (None, None))
        last_objs = (out.get('raw'), c_obj, l_obj) if out['ok'] else None
        if out['ok']:
            for kind, o in (('constants', c_obj), ('labels', l_obj)):
                if o is not None:
                    handed.append((si, kind, o, dict(o)))
        # invariants after every step
        t = module_tables()
        for name in sorted(set(t) | set(tables0)):
            if t.get(name) != tables0.get(name):
                # verdict only for the assembler's semantic tables and the function defaults; any other module-level
                # container (a cache may be perfectly sound) is an observation - the refinement oracle judges its effect
                cls = 'module-state-mutated' if is_semantic_table(name) else 'observation'
                inv.append({'step': si, 'cls': cls, 'key': name, 'msg': 'module-level %s changed during step %d (%s)' % (name, si, scen['pool'][op['prog']]['kind'])})
                tables0[name] = t.get(name)
        for (s0, kind, o, cp) in handed:
            if s0 != si and o != cp:
                inv.append({'step': si, 'cls': 'earlier-result-mutated', 'key': kind, 'msg': 'the %s dict returned by step %d changed during step %d' % (kind, s0, si)})
                cp.clear()
                cp.update(o)
        if shared_inc != shared_inc_copy:
            inv.append({'step': si, 'cls': 'caller-include-dirs-mutated', 'key': 'list', 'msg': 'the caller\'s include_dirs list changed from %r to %r during step %d' % (shared_inc_copy, shared_inc, si)})
            shared_inc_copy = list(shared_inc)
    return {'steps': steps, 'inv': inv, 'events': log.events, 'digest': log.digest(), 'nevents': log.seq}


def run_single(files, dirs, cwd, call, inj):
    """The pristine-process reference for one step."""
    asmsim.init()
    for k in ('constants', 'labels'):
        if call.get(k):
            # an equal dictionary is the same input whatever its insertion order
            call = dict(call, **{k: dict(reversed(list(call[k].items())))})
    fs = asmsim.make_fs(files, dirs, cwd=cwd, faults=copy.deepcopy(inj['faults']) if inj and inj['kind'] == 'fs' else [])
    out = asmsim.run_api(fs, call, core.EventLog(0), inject=inj if inj and inj['kind'] == 'line' else None)
    rec = norm_outcome(out)
    rec['fs_fired'] = len(fs.fired)
    return rec


def diff_kind(a, b):
    if a['ok'] != b['ok']:
        return 'accepted-vs-refused' if a['ok'] else 'refused-vs-accepted'
    if a['ok']:
        for k in ('bytes', 'labels', 'constants'):
            if a[k] != b[k]:
                return k
        return 'fs-ops'
    for k in ('exc', 'file', 'line', 'msg'):
        if a.get(k) != b.get(k):
            return 'error-' + k
    return 'fs-ops'


def run_scenario(scen, keep_events=False):
    res = core.Result()
    if scen['kind'] == 'hscli':
        return run_hscli(scen, res, keep_events)
    hist = core.run_isolated(asmsim.retry_real, run_history, scen, timeout=300)
    for v in hist['inv']:
        if v['cls'] == 'observation':
            res.observe('module-container-changed:' + v['key'])
        else:
            res.violate(v['cls'], v['key'], v['msg'])
    files = dict(scen['files'])
    bins = dict(scen['bins'])
    cwd = scen['cwd0']
    memo = {}
    sigparts = []
    prev_kind = None
    prev_class = None
    n_asm = 0
    interesting = False
    for si, op in enumerate(scen['ops']):
        if op['op'] == 'write':
            files[op['path']] = apply_edit(files.get(op['path'], ''), op['edit'], op['arg'])
            prev_class = 'write'
            sigparts.append('w')
            continue
        if op['op'] == 'mutate':
            sigparts.append('mu')
            continue
        if op['op'] == 'rm':
            files.pop(op['path'], None)
            prev_class = 'write'
            sigparts.append('rm')
            continue
        if op['op'] == 'create':
            files[op['path']] = files.get(op['like'], '').rstrip('\n') + '\n    xori t0, t0, 1\n'
            prev_class = 'write'
            sigparts.append('cr')
            continue
        if op['op'] == 'writebin':
            bins[op['path']] = op['spec']
            prev_class = 'write'
            sigparts.append('wb')
            continue
        if op['op'] == 'chdir':
            cwd = op['dir']
            prev_class = 'chdir'
            sigparts.append('cd')
            continue
        rec = hist['steps'][si]
        prog = scen['pool'][op['prog']]
        call = call_of(scen, op, list(scen['shared_inc']))
        inj = op.get('inject')
        key = hashlib.sha256(json.dumps([sorted(files.items()), sorted(bins.items()), cwd, call, inj], sort_keys=True, default=repr).encode()).hexdigest()
        if key not in memo:
            memo[key] = core.run_isolated(asmsim.retry_real, run_single, files_bytes(files, bins), scen['dirs'] + [cwd], cwd, call, inj, timeout=120)
        base = memo[key]
        n_asm += 1
        cls = 'ok' if rec['ok'] else ('crash' if rec['exc'] == 'SimCrash' else 'refused')
        crashed = rec.get('exc') == 'SimCrash' or base.get('exc') == 'SimCrash'
        if crashed:
            # a torn-down call is a fault, not an observation: where the n-th executed line falls may legitimately differ
            # between a warm and a pristine process (a sound memo skips lines), so its own outcome is not compared
            res.observe('crashed-step-not-compared')
        elif rec != base:
            dk = diff_kind(rec, base)
            res.violate('history-dependent-result', dk,
                        'step %d (%s, compress=%s, dicts=%s, inject=%s): in-history outcome differs from the pristine-process reference in %s: history=%s reference=%s'
                        % (si, prog['kind'], op['compress'], op['dicts'], (inj or {}).get('kind'), dk, _short(rec), _short(base)))
        # reach
        if prev_class == 'refused':
            res.hit('step:assemble-after-failure')
            interesting = True
        if prev_class == 'crash':
            res.hit('step:assemble-after-crash')
            interesting = True
        if prev_class == 'write':
            res.hit('step:after-write')
        if prev_class == 'chdir':
            res.hit('step:after-chdir')
        if prev_kind in ('definer', 'alias-definer', 'tree', 'walrus-definer') and prog['kind'] in ('user', 'user-labels', 'alias-user', 'redefine', 'walrus-user'):
            res.hit('step:pair-user-after-definer')
            interesting = True
        if rec.get('fs_fired'):
            res.hit('step:fsfault-fired')
        if cls == 'crash':
            res.hit('step:crash-fired')
        if op['dicts'] == 'seeded':
            res.hit('step:seeded-constants')
        if not prog['is_path']:
            res.hit('step:source-string')
        if prog['kind'] == 'tree':
            res.hit('step:include-tree')
        sigparts.append('%s:%s:%s' % (prog['kind'], cls, (inj or {}).get('kind', '-')))
        prev_kind, prev_class = prog['kind'], cls
    if scen['kind'] == 'hs':
        run_hashseeds(scen, hist, res)
    res.nontrivial = n_asm >= 2 and interesting
    res.sig = '|'.join(sigparts)
    res.digest = hist['digest']
    res.steps = hist['nevents']
    if keep_events:
        res.events = hist['events']
    return res


def _short(rec):
    if rec['ok']:
        return 'ok bytes=%s.. labels=%s constants=%s' % (rec['bytes'][:24], rec['labels'], rec['constants'])
    return '%s(%s) at %s:%s' % (rec['exc'], (rec['msg'] or '')[:70].replace('\n', ' | '), rec.get('file'), rec.get('line'))


# --------------------------------------------------------------------------
# hash-seed dimension

def run_hashseeds(scen, hist, res):
    want = [s for s in hist['steps']]
    payload = json.dumps(scen)
    for hs in scen['hashseeds']:
        env = dict(os.environ, PYTHONHASHSEED=hs, VERIF_REPO=core.REPO, PYTHONDONTWRITEBYTECODE='1')
        p = subprocess.run([sys.executable, '-B', os.path.join(core.VERIF, 'sim', 'c16_child.py')], input=payload, capture_output=True, text=True, env=env, timeout=300)
        if p.returncode != 0:
            raise core.HarnessError('hash-seed child failed: %s' % (p.stderr[-800:],))
        got = json.loads(p.stdout)
        res.hit('hashseed:interpreters')
        for si, (a, b) in enumerate(zip(got['steps'], want)):
            if a != b:
                dk = diff_kind(a, b) if a and b else 'shape'
                res.violate('hashseed-dependent', dk, 'step %d differs between PYTHONHASHSEED=%s (fresh interpreter) and the reference run: %s vs %s'
                            % (si, hs, _short(a) if a else a, _short(b) if b else b))
                break
        for v in got['inv']:
            if v['cls'] != 'observation':
                res.violate(v['cls'], v['key'], v['msg'] + ' (PYTHONHASHSEED=%s)' % hs)


def run_hscli(scen, res, keep_events):
    tree = scen['tree']
    files = progs.tree_files_bytes(tree)
    outs = []
    for hs in scen['hashseeds']:
        x = asmsim.run_cli_real(files, tree['dirs'], scen['cwd'], scen['argv'], hashseed=hs)
        res.hit('hashseed:cli-real')
        outs.append((hs, x['code'], {k: v for k, v in x['files'].items() if k.startswith(scen['cwd'] + '/') and k.rsplit('.', 1)[-1] in ('bin', 'hex', 'txt')}))
    ref = outs[0]
    for o in outs[1:]:
        if o[1] != ref[1]:
            res.violate('hashseed-dependent', 'cli-exit', 'exit status %s under PYTHONHASHSEED=%s but %s under %s; argv=%r' % (o[1], o[0], ref[1], ref[0], scen['argv']))
        elif o[2] != ref[2]:
            which = sorted(k for k in set(o[2]) | set(ref[2]) if o[2].get(k) != ref[2].get(k))
            res.violate('hashseed-dependent', 'cli-files', 'output file(s) %s differ between PYTHONHASHSEED=%s and %s; argv=%r' % (which, o[0], ref[0], scen['argv']))
    res.sig = 'hscli|%s|%d' % (ref[1], len(ref[2]))
    res.nontrivial = ref[1] == 0
    res.digest = hashlib.sha256(repr([(o[1], sorted(o[2].items())) for o in outs]).encode()).hexdigest()[:16]
    res.steps = len(outs)
    if keep_events:
        res.events = ['cli %s exit %s files %s' % (o[0], o[1], sorted(o[2])) for o in outs]
    return res


# --------------------------------------------------------------------------

def shrink(scen):
    if scen['kind'] == 'hscli':
        return
    ops = scen['ops']
    n = len(ops)
    step = max(1, n // 2)
    while step >= 1:
        for i in range(0, n, step):
            if len(ops) - len(ops[i:i + step]) >= 1:
                c = copy.deepcopy(scen)
                del c['ops'][i:i + step]
                yield c
        step //= 2
    for i, op in enumerate(ops):
        if op['op'] == 'assemble':
            if op.get('inject'):
                c = copy.deepcopy(scen)
                c['ops'][i]['inject'] = None
                yield c
            if op['compress']:
                c = copy.deepcopy(scen)
                c['ops'][i]['compress'] = False
                yield c
            if op['dicts'] != 'fresh':
                c = copy.deepcopy(scen)
                c['ops'][i]['dicts'] = 'fresh'
                yield c
            if op['inc'] != 'none':
                c = copy.deepcopy(scen)
                c['ops'][i]['inc'] = 'none'
                yield c
    if scen.get('hashseeds') and len(scen['hashseeds']) > 1:
        for hs in scen['hashseeds']:
            c = copy.deepcopy(scen)
            c['hashseeds'] = [hs]
            yield c


SHRINK_BUDGET_S = 90.0


def extra_evidence(batch):
    return {'fault_kinds': 'assemble() torn down at the n-th executed line (SimCrash), SimFS read faults (EIO/EACCES/ENOENT on open, exists lying, file growing after getsize), '
                           'naturally failing programs in every fault class, file edits and chdir between calls, PYTHONHASHSEED variation in fresh interpreters'}
