"""Fresh-interpreter runner for the hash-seed dimension of C16: reads a history scenario (JSON) on stdin, executes it
in this interpreter (whatever PYTHONHASHSEED it was started with) and prints the per-step outcomes as JSON."""
import json
import os
import sys

sys.path.insert(0, os.path.dirname(os.path.dirname(os.path.abspath(__file__))))
from sim import core, c16  # noqa: E402

core.ensure_repo_on_path()
scen = json.load(sys.stdin)
out = c16.run_history(scen)
json.dump({'steps': out['steps'], 'inv': out['inv'], 'hashseed': os.environ.get('PYTHONHASHSEED')}, sys.stdout)
