"""Confirm an independently written breaking change and file it under /verif/seeded/<id>/.

  confirm_seeded.py <worktree> <out-subdir> <id> <property> "<what it needs to manifest>"

In the scratch worktree: demo passes on the clean tree; patch applies; the pinned tests pass with it;
demo fails with it; tree reset.  Only then is seeded/<id>/ written (patch.diff, demo.py, notes.md, meta.json).
"""
import json, os, shutil, subprocess, sys

def sh(cmd, cwd, env=None):
    p = subprocess.run(cmd, cwd=cwd, shell=True, capture_output=True, text=True, env=env)
    return p.returncode, (p.stdout + p.stderr)

def main():
    wt, sub, sid, prop, needs = sys.argv[1:6]
    out = os.path.join(wt, sub)
    env = dict(os.environ, PYTHONPATH=wt, PYTHONDONTWRITEBYTECODE='1')
    demo = [f for f in os.listdir(out) if f.startswith('demo')][0]
    ran = []
    sh('git checkout -- .', wt)
    rc0, o0 = sh('/venv/bin/python %s' % os.path.join(out, demo), wt, env); ran.append('demo on clean tree: exit %d' % rc0)
    rc, o = sh('git apply %s' % os.path.join(out, 'patch.diff'), wt); ran.append('git apply: exit %d' % rc)
    if rc: print(o); 
    rct, ot = sh('/venv/bin/python -m pytest -q -p no:cacheprovider tests', wt, env); ran.append('pytest with patch: exit %d (%s)' % (rct, ot.strip().splitlines()[-1] if ot.strip() else ''))
    rc1, o1 = sh('/venv/bin/python %s' % os.path.join(out, demo), wt, env); ran.append('demo with patch: exit %d' % rc1)
    sh('git checkout -- .', wt)
    ok = rc0 == 0 and rc == 0 and rct == 0 and rc1 != 0
    print('\n'.join(ran)); print('CONFIRMED' if ok else 'NOT CONFIRMED')
    if not ok:
        print(o0[-800:]); print(o1[-800:]); return 1
    dest = os.path.join('/verif/seeded', sid)
    os.makedirs(dest, exist_ok=True)
    for f in os.listdir(out):
        if os.path.isfile(os.path.join(out, f)):
            shutil.copy(os.path.join(out, f), os.path.join(dest, f))
    meta = {'property': prop, 'needs_to_manifest': needs, 'confirmed': ran, 'demo_output_with_patch': o1[-600:], 'expect': 'caught',
            'source': 'independent sub-agent given only the property text and a scratch worktree'}
    json.dump(meta, open(os.path.join(dest, 'meta.json'), 'w'), indent=1)
    return 0
sys.exit(main())
