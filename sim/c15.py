"""C15 - a faulty source line is reported as an assembler error naming that file and line."""
import copy
import posixpath
import re

from . import core, asmsim, progs
from .simfs import SimFS

ID = 'C15'
LEVEL = 'fault_enumeration'
RULE = ('fault-point enumeration: every faulty-line shape of every class the statement lists (operand out of range, data value out of range, '
        'unknown register, undefined label, undefined constant, malformed expression, non-integer expression, error directive, missing include '
        'file, duplicate label) x include depth of the file that holds it {main, depth 1, depth >= 2} x position {first, middle, last} x compress '
        '{off, on}, each planted into a freshly generated valid include tree on SimFS and assembled through the API (cwd/main-spelling varied) and '
        'the CLI; plus seeded random plantings.  Oracle: if the program is refused, the exception is asm.AssemblerError and '
        'normpath(abspath(line.file)) / line.number equal the planted file and 1-based line; CLI: non-zero exit and stderr names that path and '
        'number.  non-trivial = the planted fault was actually refused; distinct = (class, line shape, depth, position, compress, via, verdict)')
COMPONENTS = {'real': ['bronzebeard/asm.py (read_lines, lexer, parser, all passes, AssemblerError/Line, cli_main error path)'],
              'stub': ['file system and cwd (SimFS): the faulty line lives at every include depth; missing include files are file-system states',
                       'fault planter (sim/progs.py plant_fault)']}
ASSUMPTIONS = ['C15 is conditional on refusal: accepted programs (duplicate labels; some c.* immediates) give no verdict and are counted',
               'data-directive faults are planted together with a following `align 4` so that no other line becomes faulty',
               'lines that merely lack operands (not one of the listed classes) and environment faults (EACCES, vanishing file, directory as include target) are observations']
REQUIRED_REACH = {'quick': ['verdict:refused-and-checked', 'depth:>=2', 'via:cli'], 'thorough': ['verdict:refused-and-checked', 'depth:>=2', 'via:cli']}
EXPECTED_REACH = ['class:' + c for c in progs.FAULTS if c not in ('invalid-syntax',)] + ['compress:on-refused', 'planted:in-pseudo-instruction', 'accepted:no-verdict']
CHUNK = 40
VERDICT_CLASSES = ('far-branch', 'imm-range', 'imm-range-pseudo', 'data-range', 'unknown-register', 'undefined-label', 'undefined-constant', 'malformed-expr',
                   'non-integer-expr', 'error-directive', 'missing-include', 'duplicate-label')
# malformed *lines* (missing operands) are not one of the listed classes: observations
MISSING_OPERANDS = {'addi t0, t0', 'lw t0', 'KX = ', 'pack <I', 'db', 'beq t0, t1', 'lui t0', 'add t0, t1', 'jal', 'align', 'align 4 4', 'sw t0, 4(', 'pack',
                    'include', 'include a b', 'include_bytes', 'pack <f 1'}
PSEUDO_HEADS = ('li', 'call', 'tail', 'j', 'jal', 'beqz', 'bnez', 'bgt', 'ble', 'blez', 'mv', 'not', 'neg', 'jr', 'jalr')


def worker_init():
    asmsim.init()


def parent_init(tier, seed):
    asmsim.init()


def plan(tier, seed):
    specs = []
    reps = 2 if tier == 'quick' else 20
    for cls in VERDICT_CLASSES + ('invalid-syntax',):
        for ti, text in enumerate(progs.FAULTS[cls]):
            for depth in (0, 1, 2):
                for where in ('first', 'middle', 'last'):
                    for rep in range(reps):
                        specs.append({'k': 'e', 'cls': cls, 'ti': ti, 'depth': depth, 'where': where, 'rep': rep})
    specs.extend({'k': 'r'} for _ in range(3000 if tier == 'quick' else 1000000))
    specs.extend({'k': 'env'} for _ in range(300 if tier == 'quick' else 30000))
    return specs


def file_depths(tree):
    depth = {tree['main']: 0}
    changed = True
    while changed:
        changed = False
        for inc in tree['includes']:
            if inc['from'] in depth and depth.get(inc['target'], 99) > depth[inc['from']] + 1:
                depth[inc['target']] = depth[inc['from']] + 1
                changed = True
    return depth


def make_scenario(spec, seed, idx):
    r = core.rng_for(ID, seed, idx)
    k = spec['k']
    want_depth = spec.get('depth', r.choice((0, 0, 1, 1, 2, 3)))
    for attempt in range(30):
        tree = progs.gen_tree(r, max_depth=max(1, want_depth + (1 if want_depth else 0)), nfiles=None if want_depth else r.choice((0, 1, 2)))
        depths = file_depths(tree)
        cands = [p for p, d in depths.items() if (d == want_depth if want_depth < 2 else d >= 2)]
        if cands:
            break
    else:
        cands = [tree['main']]
    target = r.choice(sorted(cands))
    if r.random() < 0.5:
        progs.add_decoys(r, tree, heavy=False)
    if k == 'e':
        cls, text, where = spec['cls'], progs.FAULTS[spec['cls']][spec['ti']], spec['where']
    else:
        cls = r.choice(VERDICT_CLASSES)
        text, where = r.choice(progs.FAULTS[cls]), r.choice(('first', 'middle', 'last', 'any'))
    if cls == 'far-branch':
        # the 5000-byte pad must be the last thing of the whole program, or it would push *other* branches out of range
        target = tree['main']
    f, ln, planted_text = progs.plant_fault(r, tree, cls, line_text=text, target_file=target, where=where)
    main_dir = posixpath.dirname(tree['main'])
    runs = []
    for comp in (False, True):
        runs.append({'via': 'api', 'cwd': r.choice((main_dir, '/w', '/w/elsewhere')), 'main_abs': r.random() < 0.5, 'compress': comp})
    runs.append({'via': 'cli', 'cwd': r.choice((main_dir, '/w/elsewhere')), 'main_abs': r.random() < 0.5, 'compress': r.random() < 0.5})
    if not tree['includes'] and f == tree['main'] and 'include' not in tree['files'][f]:
        # a single-file program can also be handed over as text: the error must then name '<string>' and the same line
        runs.append({'via': 'text', 'cwd': main_dir, 'main_abs': True, 'compress': r.random() < 0.5})
    scen = {'tree': tree, 'planted': {'file': f, 'line': ln, 'text': planted_text, 'cls': cls, 'shape': text, 'depth': depths.get(f, 0), 'where': where},
            'runs': runs, 'fs_faults': []}
    if k == 'env':
        scen['fs_faults'] = [{'op': 'open-r', 'n': r.randint(1, 3), 'kind': r.choice(('EACCES', 'ENOENT', 'EIO'))}]
    return scen


@asmsim.with_fallback
def run_scenario(scen, keep_events=False):
    res = core.Result()
    log = core.EventLog(keep=300 if keep_events else 0)
    tree = scen['tree']
    pl = scen['planted']
    files = progs.tree_files_bytes(tree)
    cls = pl['cls']
    verdict_class = cls in VERDICT_CLASSES and pl['shape'] not in MISSING_OPERANDS
    res.hit('class:' + cls)
    if pl['depth'] >= 2:
        res.hit('depth:>=2')
    head = pl['shape'].split()[0].lower() if pl['shape'].split() else ''
    if head in PSEUDO_HEADS:
        res.hit('planted:in-pseudo-instruction')
    sig = []
    for run in scen['runs']:
        cwd = run['cwd']
        main = tree['main'] if run['main_abs'] else posixpath.relpath(tree['main'], cwd)
        fs = asmsim.make_fs(files, list(tree['dirs']) + [cwd, '/w/out'], cwd=cwd, faults=copy.deepcopy(scen.get('fs_faults') or []))
        comp = run['compress']
        cflag = 'c' if comp else 'nc'
        if run['via'] in ('api', 'text'):
            target = main if run['via'] == 'api' else tree['files'][tree['main']]
            out = asmsim.run_api(fs, {'target': target, 'compress': comp, 'include_dirs': list(tree['inc_dirs'])}, log)
            refused = not out['ok']
            is_asm = out.get('is_asm_error', False)
            exc, where_pass = out.get('exc'), out.get('pass')
            rep_file = out.get('file')
            rep_line = out.get('line')
            if rep_file is not None and run['via'] == 'api':
                rep_file = posixpath.normpath(posixpath.join(cwd, rep_file))
            stderr = ''
        else:
            res.hit('via:cli')
            argv = (['-c'] if comp else [])
            for d in tree['inc_dirs']:
                argv += ['-i', d]
            argv += ['-o', '/w/out/o.bin', main]
            x = asmsim.run_cli(fs, argv, log)
            refused = x['outcome'] != 'ok'
            is_asm = x.get('exc') == 'AssemblerError'
            exc, where_pass = x.get('exc') or x['outcome'], x.get('pass')
            rep_file = x.get('err_file')
            rep_line = x.get('err_line')
            if rep_file is not None:
                rep_file = posixpath.normpath(posixpath.join(cwd, rep_file))
            stderr = x['msg'] or ''
        if fs.fired:
            res.observe('envfault:%s:%s' % (fs.fired[0][2], 'asm-error' if is_asm else (exc or 'accepted')))
            sig.append('env')
            continue
        if not refused:
            res.hit('accepted:no-verdict')
            res.observe('accepted:%s' % cls)
            sig.append('accepted')
            continue
        if not verdict_class:
            res.observe('unlisted-class:%s:%s' % (cls, 'asm-error' if is_asm else exc))
            sig.append('unlisted')
            continue
        res.hit('verdict:refused-and-checked')
        res.nontrivial = True
        if comp:
            res.hit('compress:on-refused')
        shape = re.sub(r'\b(la|lb|lc|ld|le|fade|cafe)\b', 'LABEL', pl['shape'])
        if not is_asm:
            res.violate('internal-exception', '%s|%s|%s|%s|%s' % (cls, shape, cflag, exc, where_pass),
                        'faulty line %r (class %s) at %s:%d, compress=%s via %s: refused with %s raised in %s instead of AssemblerError'
                        % (pl['text'], cls, pl['file'], pl['line'], comp, run['via'], exc, where_pass))
            sig.append('internal:' + str(exc))
            continue
        want_file = '<string>' if run['via'] == 'text' else pl['file']
        if rep_file != want_file or rep_line != pl['line']:
            res.violate('wrong-location', '%s|%s|%s' % (cls, 'main' if pl['depth'] == 0 else 'included', cflag),
                        'faulty line %r planted at %s:%d but the AssemblerError names %s:%s (compress=%s via %s cwd=%s)'
                        % (pl['text'], want_file, pl['line'], rep_file, rep_line, comp, run['via'], cwd))
            sig.append('wrongloc')
            continue
        if run['via'] == 'cli':
            # the message on stderr must name the path and the line number
            # (any spelling of the path will do: the file's base name and the line number must appear)
            if not re.search(r'(?<![0-9])%d(?![0-9])' % pl['line'], stderr) or posixpath.basename(pl['file']) not in stderr:
                res.violate('cli-message-lacks-location', '%s|%s' % (cls, cflag), 'CLI failed with %r which does not name %s line %d' % (stderr[:200], pl['file'], pl['line']))
        sig.append('ok')
    res.sig = '%s|%s|d%d|%s|%s' % (cls, pl['shape'], min(pl['depth'], 2), pl['where'], ','.join(sig))
    res.digest = log.digest()
    res.steps = log.seq
    if keep_events:
        res.events = log.events
    return res


def shrink(scen):
    if len(scen['runs']) > 1:
        for i in range(len(scen['runs'])):
            c = copy.deepcopy(scen)
            c['runs'] = [scen['runs'][i]]
            yield c
    tree = scen['tree']
    pl = scen['planted']
    if tree.get('decoys'):
        c = copy.deepcopy(scen)
        c['tree']['decoys'] = {}
        yield c
    # drop lines other than the planted one and include lines; keep the planted line number in step
    for p in sorted(tree['files']):
        lines = tree['files'][p].split('\n')
        step = max(1, len(lines) // 2)
        while step >= 1:
            for i in range(0, len(lines), step):
                chunk = range(i, min(len(lines), i + step))
                if p == pl['file'] and (pl['line'] - 1) in chunk:
                    continue
                if any(progs.parse_include_line(lines[j]) for j in chunk):
                    continue
                c = copy.deepcopy(scen)
                c['tree']['files'][p] = '\n'.join(lines[:i] + lines[i + step:])
                if p == pl['file'] and i < pl['line'] - 1:
                    c['planted']['line'] = pl['line'] - len(chunk)
                yield c
            step //= 2


SHRINK_BUDGET_S = 30.0
MAX_REPORTS = 8


def extra_evidence(batch):
    acc = {k: v for k, v in batch.obs.items() if k.startswith('accepted:')}
    return {'accepted_without_error_no_verdict': acc,
            'fault_kinds': 'planted faulty source lines of every listed class at every include depth / position / compress mode; '
                           'missing include files (file-system state); environment faults EACCES/ENOENT/EIO on open (observations)'}
