"""Self-test of the known-findings mechanism on a deliberately broken scratch copy of the repo:
  1. with every violation group of the broken copy listed as `open`, the check prints KNOWN-FINDING lines and exits 0;
  2. with one group removed from the list, the check exits 1 and reports exactly that group;
  3. `fixed` entries suppress nothing.
"""
import json, os, re, shutil, subprocess, sys, tempfile
VERIF = os.path.dirname(os.path.dirname(os.path.abspath(__file__)))
sys.path.insert(0, VERIF)
from selftest.sensitivity import make_copy, apply_spec
from mutants.specs import MUTANTS

def run(d, findings, extra_env=None):
    env = dict(os.environ, VERIF_REPO=d, VERIF_EVIDENCE_DIR=d + '/ev', VERIF_REPLAY_DIR=d + '/rp', VERIF_FINDINGS_FILE=findings)
    env.update(extra_env or {})
    p = subprocess.run([VERIF + '/check', 'C19'], env=env, capture_output=True, text=True, cwd=VERIF)
    return p.returncode, p.stdout

def main():
    m = [x for x in MUTANTS if x['name'] == 'c19-write-check-removed'][0]
    d = make_copy()
    try:
        apply_spec(d, m)
        f = d + '/findings.json'
        json.dump({'findings': []}, open(f, 'w'))
        rc, out = run(d, f, {'VERIF_LIST_ALL': '1'})
        groups = re.findall(r'^GROUP cls=(\S+) key=(\S+) runs', out, re.M)
        assert rc == 1 and groups, (rc, out[-500:])
        entries = [{'property': 'C19', 'status': 'open', 'cls': c, 'key': k, 'what': 'selftest finding %s/%s' % (c, k)} for c, k in groups]
        json.dump({'findings': entries}, open(f, 'w'))
        rc, out = run(d, f)
        n_known = len(re.findall(r'^KNOWN-FINDING: property=C19', out, re.M))
        assert rc == 0 and n_known == len(groups) and 'VIOLATION' not in out, (rc, n_known, len(groups), out[-800:])
        print('1. all %d groups listed as open -> exit 0 with %d KNOWN-FINDING lines: ok' % (len(groups), n_known))
        json.dump({'findings': entries[1:]}, open(f, 'w'))
        rc, out = run(d, f)
        viol = re.findall(r'^violation class=(\S+) key=(\S+) ', out, re.M)
        assert rc == 1 and viol == [groups[0]], (rc, viol, groups[0])
        print('2. one group not listed -> exit 1 reporting exactly %s/%s: ok' % groups[0])
        json.dump({'findings': [dict(e, status='fixed') for e in entries]}, open(f, 'w'))
        rc, out = run(d, f)
        assert rc == 1 and 'KNOWN-FINDING' not in out, rc
        print('3. fixed entries suppress nothing -> exit 1: ok')
        return 0
    finally:
        shutil.rmtree(d, ignore_errors=True)

sys.exit(main())
