"""Refresh the numbers table in DESIGN.md section 9.2 from the evidence files of the last quick runs."""
import json, re
rows = []
what = {'C18': 'one full conversation of `dfu.cli_main()` with the device (up to 650 transfers), virtual time, optional transport latency',
        'C19': 'same, with error-status / oversize injection',
        'C17': 'one `cli_main()` on SimFS (+ API reference, + a count run for line-crash jobs)',
        'C14': '36-43 assemblies (API and CLI variants) of one include tree + flattened references',
        'C10': '1-4 assemblies against the reference packer',
        'C15': '3-4 assemblies of one tree with one planted fault',
        'C16': '4-24 operations in one forked process + one forked reference per assemble step; 64 histories x 3 hash seeds in fresh interpreters'}
for c in ('C18', 'C19', 'C17', 'C14', 'C10', 'C15', 'C16'):
    e = json.load(open('/verif/evidence/%s.json' % c))
    cov = e['coverage']
    rows.append('| %s | %s | %.0f s | %s | %s |' % (c, format(cov['evaluations'], ',').replace(',', ' '), e['wall_s'], format(cov['distinct_nontrivial'], ',').replace(',', ' '), what[c]))
table = '| check | simulated runs | wall | distinct non-trivial signatures | what one run is |\n|---|---|---|---|---|\n' + '\n'.join(rows) + '\n'
p = '/verif/DESIGN.md'
s = open(p).read()
a = s.index('| check | simulated runs | wall |')
b = s.index('\n\n', a)
s = s[:a] + table.rstrip('\n') + s[b:]
open(p, 'w').write(s)
print(table)
