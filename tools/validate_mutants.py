"""Check that every mutation in mutants/specs.py still applies to the current /repo (string occurs the expected number of times)."""
import sys
sys.path.insert(0, '/verif')
from mutants.specs import MUTANTS
bad = 0
for m in MUTANTS:
    for ed in m['edits']:
        s = open('/repo/' + ed['file']).read()
        c = s.count(ed['old'])
        if c != ed.get('count', 1):
            bad += 1
            print('STALE %s: %r occurs %d times' % (m['name'], ed['old'][:70], c))
print('%d mutants, %d stale edits' % (len(MUTANTS), bad))
sys.exit(1 if bad else 0)
