"""Regenerate /verif/MANIFEST.json from the tables below (kept valid at all times)."""
import json
import os

VERIF = os.path.dirname(os.path.dirname(os.path.abspath(__file__)))

NA = {
 'C01': 'instruction word is a pure function of (mnemonic, operands): no schedule, clock, I/O, fault or history exists for a simulator to control; the quantifier is ~10^8 operand tuples to enumerate, which is not simulation (DESIGN.md section 4)',
 'C02': 'pure function of the operands / of 65 536 halfwords; exhaustive enumeration, not simulation (DESIGN.md section 4)',
 'C03': 'label offsets are a pure function of the program text; the passes run sequentially and deterministically, there is no interleaving or fault to explore (DESIGN.md section 4)',
 'C04': 'relation between two pure functions of the same text (compress off/on); needs an ISA decoder as oracle, not a simulator (DESIGN.md section 4)',
 'C05': 'needs an RV32 reference interpreter over 2^32 values; purely computational, nothing to schedule or fault (DESIGN.md section 4)',
 'C06': 'accept/reject is a pure predicate on operands (DESIGN.md section 4)',
 'C07': 'arithmetic identity over 2^32 integers; no nondeterminism or I/O involved (DESIGN.md section 4)',
 'C08': 'pure function of the program layout (DESIGN.md section 4)',
 'C09': 'pure function of the item sequence (DESIGN.md section 4)',
 'C11': 'expression evaluation is a pure function of the expression text (DESIGN.md section 4)',
 'C12': 'relation between two pure functions of the same text (DESIGN.md section 4)',
 'C13': 'metamorphic relation over the source text only (DESIGN.md section 4)',
 'C20': 'eligibility is a pure predicate on operands; size monotonicity is a pure function of the text (DESIGN.md section 4)',
}

CHECKS = {
 'C18': dict(engine='dfu-sim', category='exploration', ref='3.1',
   technique='deterministic simulation: real dfu.cli_main() against an executable DfuSe device model under a virtual clock; seeded search over firmware lengths x flash variants x busy/timeout schedules x transport faults, monitors on every request, bounded-liveness clause',
   text='Seeded search over (variant x length x content x initial flash x start-in-error x timing schedule) plus a systematic boundary sweep; every run is a full deterministic conversation judged by request-level monitors and a flash-content oracle. A clean batch is evidence, not proof; the device is a model of the DFU 1.1/DfuSe documents.',
   note='Trusted: SimDfuSe models DFU 1.1 / ST AN3156 faithfully for what dfu.py touches; no real hardware is reachable. The poll-delay clause is judged literally (every bwPollTimeout, also on non-busy replies).'),
 'C19': dict(engine='dfu-sim', category='fault_enumeration', ref='3.2',
   technique='deterministic simulation with fault injection: enumeration of device error-status injection points (single and pairs) x 15 status codes x strict/lenient device, oversize sweep, plus seeded sampling over lengths/schedules',
   text='Every single injection point (erase, set-address, data write) x status code 1..15 x device leniency is enumerated for page counts 1..8 (quick) / 1..32 (thorough), every ordered pair of points for <=4 (<=12) pages, plus seeded sampling on large images with faults biased to the last erase/write; oversize lengths per variant with random, 0xFF/0x00-tailed and DFU-suffixed content. Exhaustive within those bounds, sampled beyond.',
   note='Trusted: the device reports failures via bStatus in the completing GETSTATUS reply. "Naming the failure" is checked weakly (non-empty exit message, uncaught exception, or an output line the fault-free twin does not print).'),
 'C17': dict(engine='simfs', category='fault_enumeration', ref='3.3',
   technique='deterministic simulation with fault injection: real cli_main() on an in-memory file system; enumeration of crash points (AssemblerError / foreign exception at entry+exit of each of the 17 passes, line-granular teardown inside assemble() via sys.settrace), planted faulty lines per pass, pre-existing output files, option matrix; outputs compared with the API and an independent Intel HEX reader',
   text='Every pass x entry/exit x exception kind is enumerated over several programs and option sets; line-level crash points are swept exhaustively for 40 programs (thorough) and sampled (quick); natural failures come from faulty lines planted so that each pass that can fail does. Success runs are compared byte-for-byte with asm.assemble() on the same snapshot, the -l file with the API labels, the .hex file through an independent decoder.',
   note='Trusted: SimFS models the os/open subset faithfully (a sample is cross-checked on the real FS); crash points are confined to assemble() and CLI validation; write-phase I/O faults are reported as observations only.'),
 'C14': dict(engine='simfs', category='exploration', ref='3.5',
   technique='deterministic simulation: generated include trees on an in-memory file system assembled under every cwd x path-spelling x -i-spelling x compress combination (API and CLI), with same-named decoy files as injected environment faults; oracle = independent reference splicer + assembly of the flattened file',
   text='Seeded search over include trees (depth 0-4, adjacent/sub/parent/-i placement, same file twice, ambiguous twins, decoys) each assembled under 32 API variants and 4 CLI variants; result must equal the flattened program under some admissible choice and be identical across variants.',
   note='Trusted: the 40-line reference splicer (documented include syntax at column 0) and SimFS. The flattened text is assembled by the same assembler, so C14 says nothing about whether the bytes are right (C01-C09).'),
 'C10': dict(engine='simfs', category='exploration', ref='3.7',
   technique='deterministic simulation of the include_bytes I/O clause: blobs and same-named decoys placed relative to several simulated working directories on an in-memory file system, API and CLI, TOCTOU size/content faults as observations; reference packer oracle; value/string clauses enumerated as riding workload',
   text='Seeded search over blob placement x cwd x decoys x content kinds, each tree assembled from three working directories and through the CLI and compared with an independent reference image; boundary values for every directive/format are enumerated exhaustively ({min-1..umax+1} per width), strings sampled over ASCII/escapes/Latin-1/BMP/astral.',
   note='Only the include_bytes clause is a genuine simulation target; the value and string clauses are pure functions of the text and are enumerated as workload (DESIGN.md 3.7 says so openly). Trusted: sim/refpack.py (int.to_bytes, hand-written escape/UTF-8 code).'),
 'C16': dict(engine='history', category='exploration', ref='3.4',
   technique='deterministic simulation of call histories: seeded sequences of assemble() calls on related programs, file edits, chdir, calls torn down at arbitrary executed lines and SimFS read faults, all in one process; refinement against a pristine-process reference obtained by fork; invariants on module tables, earlier results and caller objects after every step; re-execution in fresh interpreters under different PYTHONHASHSEED',
   text='Seeded search over histories of 4-24 operations on a pool of definer/user program pairs sharing names (built so that leakage turns a refusal into an acceptance or changes bytes); every step is compared with the same call on the same snapshot in a process that never assembled anything; a sample of histories and CLI runs is repeated under 3 hash seeds in fresh interpreters.',
   note='Trusted: fork gives the pristine state; a non-empty constants argument is an input; crashed steps are faults whose own outcome is not compared; threads are out of scope (the property speaks of call histories). Only the named semantic tables and function defaults are invariants; other module-level containers (caches) are judged by their effect.'),
 'C15': dict(engine='simfs', category='fault_enumeration', ref='3.6',
   technique='deterministic simulation with fault injection (borderline, see DESIGN 3.6): systematic fault-point sweep - every faulty-line shape of every listed class planted into generated include trees on an in-memory file system at every include depth x position x compress mode, API and CLI from varying working directories; missing include files as file-system states; environment faults as observations',
   text='Every fault shape (about 230 lines over 11 classes) x include depth {0,1,>=2} x position {first,middle,last} is enumerated, each in a fresh generated tree, assembled with compress off and on through the API and once through the CLI; the refusal must be AssemblerError naming the planted file and physical line.',
   note='Trusted: the fault planter inserts exactly one faulty line (data faults with a following align 4) into an otherwise valid tree; accepted programs give no verdict; lines that merely lack operands and environment faults are observations.'),
}

def main():
    props = [json.loads(l) for l in open(os.path.join(VERIF, 'properties.jsonl'))]
    claimed = [p['id'] for p in props if p['id'] in CHECKS and os.path.exists(os.path.join(VERIF, 'sim', p['id'].lower() + '.py'))]
    checks = []
    for pid in claimed:
        c = CHECKS[pid]
        checks.append({
            'property_id': pid,
            'quick_cmd': './check %s --tier quick' % pid,
            'thorough_cmd': './check %s --tier thorough' % pid,
            'evidence_file': '/verif/evidence/%s.json' % pid,
            'replay_cmd_template': './check %s --replay {path}' % pid,
            'engine': c['engine'],
            'level_claimed': {'category': c['category'], 'text': c['text'], 'design_ref': 'DESIGN.md section ' + c['ref']},
            'level_note': c['note'],
            'technique': c['technique'],
        })
    na = []
    for p in props:
        if p['id'] in claimed:
            continue
        reason = NA.get(p['id']) or 'check under construction in this round (planned: deterministic simulation, DESIGN.md section 3); not claimed until it runs clean'
        na.append({'property_id': p['id'], 'reason': reason})
    engines = [
        {'name': 'dfu-sim', 'path': 'sim/dfudev.py, sim/dfusim.py', 'serves_properties': ['C18', 'C19'],
         'kind_free_text': 'in-process deterministic simulation of the DFU conversation: fake usb package, SimDfuSe device model, SimClock virtual time, seeded schedules and fault plans'},
        {'name': 'simfs', 'path': 'sim/simfs.py, sim/asmsim.py', 'serves_properties': ['C10', 'C14', 'C15', 'C17'],
         'kind_free_text': 'in-memory file system + cwd + I/O fault injector installed at asm.os / asm.open / intelhex.open; crash-point injector (pass wrappers, sys.settrace)'},
        {'name': 'history', 'path': 'sim/c16.py', 'serves_properties': ['C16'],
         'kind_free_text': 'call-history simulator with pristine-process fork baseline and PYTHONHASHSEED re-execution'},
    ]
    m = {
        'version': 1,
        'setup_cmd': './tools/setup.sh',
        'hooks': {'guard': 'BRONZEBEARD_VERIF',
                  'enable': 'no source hooks exist: every seam (asm.os, asm.open, intelhex.open, dfu.time, the usb package, pass functions) is a module attribute the harness replaces from outside in its own process; the guard name is reserved and unused',
                  'baseline_off_cmd': 'cd /repo && /venv/bin/python -m pytest -q -p no:cacheprovider --timeout=900',
                  'source_commits': [], 'add_only': True},
        'engines': engines,
        'checks': checks,
        'not_applicable': na,
        'notes': 'Technique: deterministic simulation with fault injection (DESIGN.md). Exit codes: 0 held, 1 VIOLATION (minimised replay, reproduced in a fresh interpreter), 2 HARNESS-ERROR. Genuine defects repaired in /repo by fix: commits are listed in known_findings.json.',
    }
    with open(os.path.join(VERIF, 'MANIFEST.json'), 'w') as f:
        json.dump(m, f, indent=1)
    print('claimed:', claimed)

if __name__ == '__main__':
    main()
