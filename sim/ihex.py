"""Independent Intel HEX reader (record types 00/01/02/04, checksums verified)."""


class HexError(ValueError):
    pass


def decode(text):
    """Return {absolute address: byte}.  Raises HexError on any malformed record."""
    mem = {}
    base = 0
    base_is_linear = True
    eof = False
    for ln, line in enumerate(text.splitlines(), 1):
        line = line.strip()
        if not line:
            continue
        if eof:
            raise HexError('line %d: data after EOF record' % ln)
        if not line.startswith(':'):
            raise HexError('line %d: missing start code' % ln)
        try:
            raw = bytes.fromhex(line[1:])
        except ValueError:
            raise HexError('line %d: not hex' % ln)
        if len(raw) < 5 or raw[0] != len(raw) - 5:
            raise HexError('line %d: bad length' % ln)
        if sum(raw) & 0xff:
            raise HexError('line %d: bad checksum' % ln)
        n, addr, typ, data = raw[0], (raw[1] << 8) | raw[2], raw[3], raw[4:-1]
        if typ == 0:
            for i, b in enumerate(data):
                a = base + ((addr + i) & 0xffff) if base_is_linear else base + addr + i
                if a in mem:
                    raise HexError('line %d: address 0x%x written twice' % (ln, a))
                mem[a] = b
        elif typ == 1:
            eof = True
        elif typ == 2:
            if n != 2:
                raise HexError('line %d: bad type 02' % ln)
            base = ((data[0] << 8) | data[1]) << 4
            base_is_linear = False
        elif typ == 4:
            if n != 2:
                raise HexError('line %d: bad type 04' % ln)
            base = ((data[0] << 8) | data[1]) << 16
            base_is_linear = True
        elif typ in (3, 5):
            pass            # start addresses: carry no data
        else:
            raise HexError('line %d: unknown record type %d' % (ln, typ))
    if not eof:
        raise HexError('no EOF record')
    return mem

