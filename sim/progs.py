"""Seeded generators for small valid programs, include trees on SimFS, and
planted faulty lines.  Everything is drawn from the random.Random passed in;
the results are plain JSON-serialisable structures."""
import posixpath

REGS = ['x0', 'x1', 'x2', 'x5', 'x8', 'x9', 'x10', 'x15', 'x16', 'x31', 'zero', 'ra', 'sp', 't0', 't1', 's0', 's1',
        'a0', 'a1', 'a5', 'a6', 't6', 'fp', 'gp', 'tp']
CREGS = ['x8', 'x9', 'x10', 'x15', 's0', 's1', 'a0', 'a5']
NZREGS = [r for r in REGS if r not in ('x0', 'zero')]
CODE_LABELS = ['la', 'lb', 'lc', 'ld', 'le', 'fade', 'cafe']
DATA_LABELS = ['dat1', 'dat2', 'dat3']
CONSTS = ['KA', 'KB', 'KC', 'KD', 'ADC0', 'BEEF', 'add', 'nop']
BIGCONSTS = ['BIG1', 'BIG2']
REGCONSTS = ['RX', 'RY']

R_OPS = ['add', 'sub', 'and', 'or', 'xor', 'sll', 'srl', 'sra', 'slt', 'sltu', 'mul', 'mulh', 'div', 'rem']
I_OPS = ['addi', 'andi', 'ori', 'xori', 'slti', 'sltiu']
SH_OPS = ['slli', 'srli', 'srai']
L_OPS = ['lw', 'lh', 'lb', 'lbu', 'lhu']
S_OPS = ['sw', 'sh', 'sb']
B_OPS = ['beq', 'bne', 'blt', 'bge', 'bltu', 'bgeu']
BP_OPS2 = ['bgt', 'ble', 'bgtu', 'bleu']
BP_OPS1 = ['beqz', 'bnez', 'bgez', 'bltz', 'blez', 'bgtz']


def sep(r):
    return r.choice((', ', ', ', ' ', ',', ' , '))


def code_line(r, env):
    """One valid instruction line.  env: labels (code labels that exist), consts (small), bigs, regconsts."""
    s = sep(r)
    reg = lambda: r.choice(REGS + env.get('regconsts', []) * 2)
    c = r.random()
    labels = env.get('labels') or []
    consts = env.get('consts') or []
    bigs = env.get('bigs') or []
    if c < 0.14:
        return '%s %s%s%s%s%s' % (r.choice(R_OPS), reg(), s, reg(), s, reg())
    if c < 0.30:
        imm = r.choice((0, 1, -1, 4, 16, 31, -32, 32, 2047, -2048, r.randint(-2048, 2047)))
        if consts and r.random() < 0.3:
            imm = r.choice(consts)
        op = r.choice(I_OPS)
        rd = reg()
        rs = rd if r.random() < 0.5 else reg()
        return '%s %s%s%s%s%s' % (op, rd, s, rs, s, imm)
    if c < 0.36:
        rd = r.choice(CREGS + REGS)
        return '%s %s%s%s%s%d' % (r.choice(SH_OPS), rd, s, rd if r.random() < 0.6 else reg(), s, r.choice((1, 5, 31, r.randint(0, 31))))
    if c < 0.46:
        off = r.choice((0, 4, 8, 124, 252, -4, 2047, -2048, r.randint(-2048, 2047)))
        base = r.choice(('sp', 'x2', 's0', 'x9', 'a0') + tuple(REGS))
        if r.random() < 0.8:
            return '%s %s%s%d(%s)' % (r.choice(L_OPS + S_OPS), r.choice(CREGS + REGS), s, off, base)
        return '%s %s%s%s%s%d' % (r.choice(L_OPS), reg(), s, base, s, off)
    if c < 0.52:
        v = r.choice((1, 31, 0xfffff, 0xfffe0, 0x12345, r.randint(0, 0xfffff)))
        if bigs and r.random() < 0.4:
            return 'lui %s%s%%hi(%s)' % (reg(), s, r.choice(bigs))
        return '%s %s%s%s' % (r.choice(('lui', 'auipc')), reg(), s, r.choice((str(v), hex(v))))
    if c < 0.66 and labels:
        lab = r.choice(labels)
        k = r.random()
        if k < 0.35:
            return '%s %s%s%s%s%s' % (r.choice(B_OPS), r.choice(CREGS + REGS), s, r.choice(('x0', 'zero') + tuple(REGS)), s, lab)
        if k < 0.5:
            return '%s %s%s%s%s%s' % (r.choice(BP_OPS2), reg(), s, reg(), s, lab)
        if k < 0.65:
            return '%s %s%s%s' % (r.choice(BP_OPS1), r.choice(CREGS + REGS), s, lab)
        if k < 0.8:
            return 'jal %s%s%s' % (r.choice(('ra', 'x1', 'x0', 'zero', 't0')), s, lab)
        return '%s %s' % (r.choice(('j', 'jal', 'call', 'tail')), lab)
    if c < 0.74:
        v = r.choice((0, 1, -1, 2047, -2048, 2048, -2049, 0x7fffffff, 0xffffffff, 0x12345678, 0x800, 0xfff, r.randint(-2**31, 2**32 - 1)))
        if bigs and r.random() < 0.3:
            v = r.choice(bigs)
        elif labels and r.random() < 0.15:
            v = r.choice(labels + env.get('dlabels', []))
        return 'li %s%s%s' % (reg(), s, v)
    if c < 0.80:
        return r.choice(('nop', 'ret', 'ecall', 'ebreak', 'fence', 'fence.i', 'mv %s%s%s' % (reg(), s, reg()),
                         'not %s%s%s' % (reg(), s, reg()), 'neg %s%s%s' % (reg(), s, reg()), 'jr %s' % r.choice(NZREGS),
                         'jalr %s' % r.choice(NZREGS), 'seqz %s%s%s' % (reg(), s, reg()), 'snez %s%s%s' % (reg(), s, reg())))
    if c < 0.86:
        return 'jalr %s%s%d(%s)' % (r.choice(('x0', 'ra', 'x1', 't0')), s, r.choice((0, 0, 4, -4)), r.choice(NZREGS))
    if c < 0.92 and (consts or bigs):
        k = r.choice(consts + bigs)
        return 'addi %s%s%s%s%%lo(%s)' % (reg(), s, reg(), s, k)
    if c < 0.96:
        # compressible shapes on purpose
        return r.choice(('addi sp, sp, 16', 'addi sp, sp, -32', 'addi x8, sp, 4', 'addi s0, x2, 1020', 'add x1, x0, x2', 'add t0, t0, t1',
                         'addi x0, x0, 0', 'addi t0, x0, 5', 'addi t0, t1, 0', 'lw x8, 0(x9)', 'sw a0, 4(s1)', 'lw ra, 0(sp)', 'sw ra, 252(sp)',
                         'sub s0, s0, s1', 'and a0, a0, a5', 'andi s0, s0, -1', 'srli s0, s0, 1', 'slli t0, t0, 31', 'lui t0, 1', 'lui t0, 0xfffff'))
    return '%s %s%s%s%s%s' % (r.choice(('csrrw', 'csrrs', 'csrrc')), reg(), s, reg(), s, r.choice(('0x300', '0x341', '0', '2047', '-2048'))) \
        if r.random() < 0.5 else 'add %s%s%s%s%s' % (reg(), s, reg(), s, reg())


def data_lines(r, env, allow_include_bytes=()):
    """A data block (always ends with `align 4`)."""
    out = []
    for _ in range(r.randint(1, 3)):
        c = r.random()
        if c < 0.2:
            out.append('db %s' % r.choice((0, 1, 255, -1, -128, 0x7f, "'A'", r.randint(-128, 255))))
        elif c < 0.3:
            out.append('dh %s' % r.choice((0, 65535, -32768, 0x1234, r.randint(-32768, 65535))))
        elif c < 0.45:
            v = r.choice((0, 0xffffffff, -2**31, 0xdeadbeef, r.randint(-2**31, 2**32 - 1)))
            refs = (env.get('labels') or []) + (env.get('dlabels') or []) + (env.get('consts') or []) + (env.get('bigs') or [])
            if refs and r.random() < 0.5:
                v = r.choice(refs)
            out.append('dw %s' % v)
        elif c < 0.5:
            out.append('dd %s' % r.choice((0, 2**64 - 1, -2**63, 0x1122334455667788)))
        elif c < 0.62:
            kw = r.choice(('bytes', 'shorts', 'ints', 'longs', 'longlongs'))
            w = {'bytes': 8, 'shorts': 16, 'ints': 32, 'longs': 32, 'longlongs': 64}[kw]
            vals = [r.choice((0, 1, -1, 2**w - 1, -2**(w - 1), r.randint(-2**(w - 1), 2**w - 1))) for _ in range(r.randint(1, 5))]
            out.append('%s %s' % (kw, ' '.join(r.choice((str(v), hex(v) if v >= 0 else str(v))) for v in vals)))
        elif c < 0.74:
            out.append('string %s' % r.choice(('hello', 'hello world', '"quoted"', 'tab\\there', 'nl\\n', 'x  # not a comment', 'include f1.asm', 'a\\\\b')))
        elif c < 0.84:
            fmt = r.choice('<>') + r.choice('bBhHiIlLqQ')
            w = {'b': 8, 'h': 16, 'i': 32, 'l': 32, 'q': 64}[fmt[1].lower()]
            v = r.randint(0, 2**(w - 1) - 1) if fmt[1].islower() else r.randint(0, 2**w - 1)
            if fmt[1].islower() and r.random() < 0.5:
                v = -v - 1
            out.append('pack %s%s%d' % (fmt, r.choice((' ', ', ')), v))
        elif c < 0.92 and allow_include_bytes:
            out.append('include_bytes %s' % r.choice(allow_include_bytes))
        else:
            out.append('db %d' % r.randint(0, 255))
    out.append('align 4')
    return out


def const_line(r, name, defined):
    c = r.random()
    if defined and c < 0.4:
        return '%s = %s %s %d' % (name, r.choice(defined), r.choice(('+', '*', '|', '^', '-')), r.randint(0, 9))
    if c < 0.5:
        return '%s = %s' % (name, r.choice((str(r.randint(0, 300)), hex(r.randint(0, 300)), bin(r.randint(0, 31)), '(1 << %d)' % r.randint(0, 8), "'%s'" % r.choice('AZaz09?'))))
    return '%s = %d' % (name, r.randint(0, 2047))


def gen_file_body(r, env, nblocks, own_labels, own_consts, own_bigs, own_dlabels, allow_include_bytes=()):
    """Lines of one source file (no include lines; those are inserted by the tree generator)."""
    lines = []
    defined = list(env.get('consts_defined_so_far', []))
    for k in own_consts:
        if k in REGCONSTS:
            lines.append('%s = %s' % (k, r.choice(('t0', 't1', 's0', 'a0', 'x9', 'x15'))))
        else:
            lines.append(const_line(r, k, [d for d in defined if d in CONSTS][:2] if r.random() < 0.5 else []))
            # keep immediates in range: a derived constant is only *defined*, never used as a 12-bit immediate
        defined.append(k)
    for k in own_bigs:
        lines.append('%s = %s' % (k, r.choice(('0x40021000', '0x08000000', '0x12345678', '0xdeadb000 + 0x7ff', '0x20000000 | 0x800'))))
    pending_labels = list(own_labels)
    pending_dlabels = list(own_dlabels)
    for b in range(nblocks):
        if r.random() < 0.3:
            if pending_dlabels:
                lines.append(pending_dlabels.pop() + ':')
            lines.extend(data_lines(r, env, allow_include_bytes))
        if pending_labels and (r.random() < 0.7 or b == nblocks - 1):
            lines.append(pending_labels.pop() + ':')
        for _ in range(r.randint(1, 4)):
            lines.append(('    ' if r.random() < 0.7 else '') + code_line(r, env))
        if r.random() < 0.15:
            lines.append(r.choice(('# a comment', '', '   ', '    # indented comment', '# see /* the old notes', '# end of notes */ here', '# /* one-line */ marker', '; not a comment char' if False else '#')))
    for lab in pending_labels:
        lines.append(lab + ':')
        lines.append('    nop')
    for lab in pending_dlabels:
        lines.append(lab + ':')
        lines.append('dw 0')
    return lines


def simple_program(r, nlabels=2, nconsts=2, nblocks=2, regconst=False):
    labels = r.sample(CODE_LABELS, nlabels)
    consts = r.sample(CONSTS, nconsts)
    env = {'labels': labels, 'consts': [], 'bigs': ['BIG1'] if r.random() < 0.4 else [], 'dlabels': ['dat1'] if r.random() < 0.4 else [],
           'regconsts': ['RX'] if regconst else []}
    # only directly-defined small constants are safe as 12-bit immediates
    lines = []
    for k in consts:
        lines.append('%s = %d' % (k, r.randint(0, 2047)))
    env['consts'] = consts
    body = gen_file_body(r, env, nblocks, labels, env['regconsts'], env['bigs'], env['dlabels'])
    return lines + body


# --------------------------------------------------------------------------
# include trees

W = '/w'
PROJ = '/w/proj'
LAYOUT_DIRS = ['/w', '/w/proj', '/w/proj/sub', '/w/proj/sub/deep', '/w/inc1', '/w/other/inc2', '/w/elsewhere', '/w/proj/out']


def gen_tree(r, max_depth=3, allow_bytes=False, nfiles=None):
    """Generate a valid include tree.  Returns dict(files, dirs, main, inc_dirs, includes, names...)."""
    inc_dirs = r.choice(([], [], ['/w/inc1'], ['/w/inc1', '/w/other/inc2'], ['/w/other/inc2']))
    main_dir = r.choice((PROJ, PROJ, PROJ, '/w/proj/sub'))
    main = main_dir + '/main.asm'
    depth = r.randint(0, max_depth)
    nfiles = nfiles if nfiles is not None else (0 if depth == 0 else r.randint(1, 4))
    names = ['f1.asm', 'f2.asm', 'f3.asm', 'defs.asm', 'lib.S', 'board', 'regs']
    # allocate symbols to files
    nodes = [{'path': main, 'depth': 0, 'children': []}]
    used_paths = {main}
    for i in range(nfiles):
        cands = [n for n in nodes if n['depth'] < max(1, depth)]
        parent = r.choice(cands) if r.random() < 0.6 else max(cands, key=lambda n: n['depth'])
        pdir = posixpath.dirname(parent['path'])
        name = r.choice(names)
        where = r.choice(('adjacent', 'adjacent', 'sub', 'parent', 'inc') if inc_dirs else ('adjacent', 'adjacent', 'sub', 'parent'))
        if where == 'adjacent':
            path, written = pdir + '/' + name, name
            # a spelling that goes down and up again (only through a directory that exists)
            if r.random() < 0.12 and (pdir + '/sub') in LAYOUT_DIRS:
                written = 'sub/../' + name
        elif where == 'sub':
            sd = r.choice(('sub', 'deep', 'lib'))
            path, written = pdir + '/' + sd + '/' + name, sd + '/' + name
        elif where == 'parent':
            if pdir == '/w':
                path, written = pdir + '/' + name, name
            else:
                path, written = posixpath.dirname(pdir) + '/' + name, '../' + name
        else:
            d = r.choice(inc_dirs)
            path, written = d + '/' + name, name
        if path not in used_paths and _would_be_ambiguous(nodes, inc_dirs, used_paths, pdir, written, path):
            continue
        if where != 'inc' and r.random() < 0.12 and not written.startswith('./'):
            written = './' + written           # './x', './sub/x', './../x': the same file, spelled from the current directory
        if path in used_paths:
            if r.random() < 0.3 and path != main and not _is_ancestor(nodes, parent, path) \
                    and not _would_be_ambiguous(nodes, inc_dirs, used_paths - {path}, pdir, written, path):
                # include the same file a second time
                parent['children'].append({'ref': path, 'written': written})
            continue
        used_paths.add(path)
        node = {'path': path, 'depth': parent['depth'] + 1, 'children': [], 'parent': parent['path']}
        nodes.append(node)
        parent['children'].append({'ref': path, 'written': written})
    # symbols
    labels = r.sample(CODE_LABELS, min(len(CODE_LABELS), r.randint(1, 3) + len(nodes) // 2))
    consts = r.sample(CONSTS, r.randint(1, 3))
    bigs = r.sample(BIGCONSTS, r.randint(0, 1))
    regconsts = r.sample(REGCONSTS, r.choice((0, 0, 1)))
    dlabels = r.sample(DATA_LABELS, r.randint(0, 2))
    owner = lambda: r.choice(nodes)
    alloc = {n['path']: {'labels': [], 'consts': [], 'bigs': [], 'dlabels': [], 'regconsts': []} for n in nodes}
    for lab in labels:
        alloc[owner()['path']]['labels'].append(lab)
    for k in dlabels:
        alloc[owner()['path']]['dlabels'].append(k)
    # constants must be defined before the first constant expression that uses them; uses as immediates may come anywhere.
    # Simplest sound rule: all constants are defined in files by plain literals (no cross-file constant expressions) except
    # derived ones which live in the same file after their base.
    for k in consts:
        alloc[owner()['path']]['consts'].append(k)
    for k in bigs:
        alloc[owner()['path']]['bigs'].append(k)
    for k in regconsts:
        # register aliases must be defined before their use is resolved: define in the main file header
        alloc[main]['regconsts'].append(k)
    env = {'labels': labels, 'consts': consts, 'bigs': bigs, 'dlabels': dlabels, 'regconsts': regconsts}
    files = {}
    bins = {}
    if allow_bytes:
        bname = r.choice(('d1.bin', 'blob.dat'))
        bins[main_dir + '/' + bname] = {'rand': [r.randrange(1 << 30), r.choice((0, 1, 3, 16, 255, 300))]}
    includes = []
    for n in nodes:
        a = alloc[n['path']]
        own_consts = a['regconsts'] + a['consts']
        body = gen_file_body(r, dict(env, consts=[]), r.randint(1, 3), a['labels'], [], a['bigs'], a['dlabels'],
                             allow_include_bytes=[posixpath.basename(p) for p in bins] if (allow_bytes and posixpath.dirname(n['path']) == main_dir) else ())
        # constants as plain literals at the top of the owning file (small, safe as immediates)
        head = []
        for k in own_consts:
            if k in REGCONSTS:
                head.append('%s = %s' % (k, r.choice(('t0', 't1', 's0', 'a0', 'x9', 'x15'))))
            else:
                head.append('%s = %s' % (k, r.choice((str(r.randint(0, 2047)), hex(r.randint(0, 2047))))))
        body = head + body
        # uses of small constants as immediates anywhere
        for _ in range(r.randint(0, 2)):
            if consts:
                body.insert(_safe_pos(body, r.randint(len(head), len(body)), len(head)), '    addi %s, %s, %s' % (r.choice(REGS), r.choice(REGS), r.choice(consts)))
        # insert include lines
        for ch in n['children']:
            style = r.random()
            w = ch['written']
            if style < 0.42:
                line = 'include %s' % w
            elif style < 0.5:
                line = 'include %s%s' % (w, r.choice(('  ', '\t', ' \t ')))
            elif style < 0.62:
                line = 'include "%s"' % w
            elif style < 0.66:
                line = 'include "%s"%s' % (w, r.choice((' ', '\t', '  ')))
            elif style < 0.7:
                line = 'include "%s" # %s' % (w, posixpath.basename(w))
            elif style < 0.8:
                line = "include '%s'" % w
            elif style < 0.86:
                line = 'include %s  # pulls in %s' % (w, posixpath.basename(w))
            elif style < 0.9:
                line = 'include %s  # replaces "%s" (was \'old_%s\')' % (w, r.choice(names), posixpath.basename(w))
            else:
                line = 'INCLUDE %s' % w
            pos = r.choice((len(head), len(body), r.randint(len(head), len(body))))
            pos = _safe_pos(body, pos, len(head))
            body.insert(pos, line)
            includes.append({'from': n['path'], 'written': w, 'target': ch['ref']})
        text = '\n'.join(body)
        k = r.random()
        if k < 0.6:
            text += '\n'
        elif k < 0.7:
            text += '\n\n\n'
        if r.random() < 0.1:
            text = '\n' + text
        if r.random() < 0.08:
            text = text.replace('\n', '\r\n')
        files[n['path']] = text
    if nodes and r.random() < 0.1:
        # an included file that contributes nothing (empty, blank lines, comments only)
        host = r.choice(nodes)['path']
        ep = posixpath.dirname(host) + '/empty.inc'
        if ep not in files and not _would_be_ambiguous(nodes, inc_dirs, used_paths, posixpath.dirname(host), 'empty.inc', ep):
            files[ep] = r.choice(('', '\n', '\n\n   \n', '# nothing here\n', '   # indented comment only'))
            crlf = '\r\n' in files[host]
            hl = files[host].replace('\r\n', '\n').split('\n')
            pos = _safe_pos(hl, r.randint(0, len(hl)), 0)
            if pos == len(hl) and hl and hl[-1] == '':
                pos -= 1            # before the empty string that stands for the final newline
            hl.insert(pos, 'include empty.inc')
            files[host] = '\n'.join(hl).replace('\n', '\r\n') if crlf else '\n'.join(hl)
            includes.append({'from': host, 'written': 'empty.inc', 'target': ep})
    tree = {'files': files, 'bins': bins, 'dirs': list(LAYOUT_DIRS), 'main': main, 'inc_dirs': inc_dirs, 'includes': includes,
            'symbols': env}
    return tree


def _cands(inc_dirs, from_dir, written):
    return [posixpath.normpath(posixpath.join(d, written)) for d in [from_dir] + list(inc_dirs)]


def _would_be_ambiguous(nodes, inc_dirs, used_paths, pdir, written, path):
    """Adding `path`, included as `written` from a file in pdir: would any include then have two existing candidates?"""
    for c in _cands(inc_dirs, pdir, written):
        if c != path and c in used_paths:
            return True
    for n in nodes:
        for ch in n['children']:
            cs = _cands(inc_dirs, posixpath.dirname(n['path']), ch['written'])
            if path in cs and path != ch['ref']:
                return True
    return False


def _safe_pos(body, pos, lo):
    """Never split a data block from its trailing `align 4`, and keep register-alias constants first."""
    pos = max(lo, min(pos, len(body)))
    while pos <= len(body) and pos > 0 and _in_data_block(body, pos):
        pos += 1
    return min(pos, len(body))


DATA_HEADS = ('db', 'dh', 'dw', 'dd', 'bytes', 'shorts', 'ints', 'longs', 'longlongs', 'string', 'pack', 'include_bytes')


def _in_data_block(body, pos):
    """True if inserting at index pos would land between a data directive and the `align` that closes its block."""
    i = pos - 1
    while i >= 0:
        toks = body[i].split()
        head = toks[0].lower() if toks else ''
        if head == 'align':
            return False
        if head in DATA_HEADS:
            return True
        i -= 1
    return False


def _is_ancestor(nodes, node, path):
    """Would an include edge node -> path close a cycle?  (is `node` reachable from `path`, or equal to it)"""
    by = {n['path']: n for n in nodes}
    seen, stack = set(), [path]
    while stack:
        p = stack.pop()
        if p == node['path']:
            return True
        if p in seen or p not in by:
            continue
        seen.add(p)
        stack.extend(c['ref'] for c in by[p]['children'])
    return False


def _included_twice(nodes):
    seen, twice = set(), set()
    for n in nodes:
        for c in n['children']:
            if c['ref'] in seen:
                twice.add(c['ref'])
            seen.add(c['ref'])
    return twice


def add_decoys(r, tree, heavy=True):
    """Files with the same names but different content where a wrong search would find them."""
    names = set(posixpath.basename(p) for p in tree['files'] if p != tree['main'])
    names.update(posixpath.basename(i['written']) for i in tree['includes'])
    places = ['/w/elsewhere', '/w', '/w/proj', '/w/proj/sub', '/w/proj/out']
    searched = set(tree['inc_dirs'])
    n = 0
    for name in sorted(names):
        for d in places:
            if r.random() < (0.7 if heavy else 0.3):
                p = d + '/' + name
                if p in tree['files']:
                    continue
                # a decoy must not sit where the documented search looks for any include (adjacent or -i, incl. sub/ and ../ forms)
                clash = d in searched
                for inc in tree['includes']:
                    if p in _cands(tree['inc_dirs'], posixpath.dirname(inc['from']), inc['written']):
                        clash = True
                if clash:
                    continue
                tree.setdefault('decoys', {})[p] = 'DECOY%d = %d\n    addi x0, x0, %d\n    nop\n' % (n, n, n % 7)
                n += 1
    # a name without an extension is a complete name: NAME.asm / NAME.S next to it or on the search path are other files
    for inc in tree['includes']:
        base = posixpath.basename(inc['written'])
        if '.' in base:
            continue
        for ext in ('.asm', '.S', '.inc'):
            for d in list(tree['inc_dirs']) + [posixpath.dirname(inc['target'])]:
                p = posixpath.normpath(posixpath.join(d, posixpath.dirname(inc['written']), base + ext))
                if p not in tree['files'] and p not in (tree.get('decoys') or {}) and r.random() < 0.6:
                    tree.setdefault('decoys', {})[p] = 'EXTDECOY%d = %d\n    andi t1, t1, %d\n' % (n, n, n % 9)
                    n += 1
    # names that differ by case only are different names: put such look-alikes right where the search looks
    for inc in tree['includes']:
        base = posixpath.basename(inc['written'])
        for alt in (base.upper(), base.capitalize(), base.lower()):
            if alt == base or r.random() < 0.6:
                continue
            for d in list(tree['inc_dirs']) + [posixpath.dirname(inc['target'])]:
                p = posixpath.normpath(posixpath.join(d, posixpath.dirname(inc['written']), alt))
                if p not in tree['files'] and p not in (tree.get('decoys') or {}):
                    tree.setdefault('decoys', {})[p] = 'CASEDECOY%d = %d\n    ori t0, t0, %d\n' % (n, n, n % 9)
                    n += 1
    return tree


def tree_files_bytes(tree):
    """All files of a tree as {abs path: bytes} (sources, decoys, binaries)."""
    import random
    out = {}
    for p, t in tree['files'].items():
        out[p] = t.encode('utf-8')
    for p, t in (tree.get('decoys') or {}).items():
        out[p] = t.encode('utf-8') if isinstance(t, str) else bin_bytes(t)
    for p, spec in (tree.get('bins') or {}).items():
        out[p] = bin_bytes(spec)
    return out


def bin_bytes(spec):
    import random
    if isinstance(spec, str):
        return spec.encode('utf-8')
    if 'hex' in spec:
        return bytes.fromhex(spec['hex'])
    if 'rand' in spec:
        seed, n = spec['rand']
        return random.Random(seed).randbytes(n)
    if 'all256' in spec:
        return bytes(range(256)) * spec['all256']
    if 'text' in spec:
        return spec['text'].encode('utf-8')
    raise ValueError(spec)


# --------------------------------------------------------------------------
# the independent reference splicer (C14 oracle)

def ref_candidates(tree_files, inc_dirs, from_path, written):
    cands = [posixpath.normpath(posixpath.join(posixpath.dirname(from_path), written))]
    for d in inc_dirs:
        cands.append(posixpath.normpath(posixpath.join(d, written)))
    out = []
    for c in cands:
        if c in tree_files and c not in out:
            out.append(c)
    return out


def parse_include_line(raw):
    """What the documentation shows: `include NAME` at column 0, optional quotes, optional trailing comment."""
    if not raw.lower().startswith('include '):
        return None
    body = raw.split('#', 1)[0].split()
    if len(body) != 2:
        return None
    return body[1].strip('"\'')


def flatten(tree_files, inc_dirs, path, choice=None, ambiguous=None, depth=0):
    """Replace every include line by the lines of the file the statement says must be found.
    choice: dict (from, written) -> index among candidates for ambiguous includes."""
    if depth > 200:
        raise RecursionError('include cycle')
    out = []
    text = tree_files[path].decode('utf-8')
    for raw in text.splitlines():
        name = parse_include_line(raw)
        if name is None:
            out.append(raw)
            continue
        cands = ref_candidates(tree_files, inc_dirs, path, name)
        if not cands:
            raise FileNotFoundError(name)
        idx = 0
        if len(cands) > 1:
            if ambiguous is not None:
                ambiguous.add((path, name, len(cands)))
            idx = (choice or {}).get((path, name), 0)
        out.extend(flatten(tree_files, inc_dirs, cands[idx], choice, ambiguous, depth + 1))
    return out


# --------------------------------------------------------------------------
# planted faults (C15, and failing programs for C16/C17)

FAULTS = {
    'imm-range': ['addi t0, t0, 2048', 'addi t0, t0, -2049', 'lw t0, 4096(sp)', 'sw t0, -2049(sp)', 'lui t0, 0x100000', 'lui t0, -1',
                  'beq t0, t1, 4096', 'beq t0, t1, -4098', 'jal ra, 1048576', 'jal x0, -1048578', 'c.addi t0, 32', 'c.li t0, -33',
                  'fence 16 0', 'fence rx, w', 'fence iorw, q', 'fence 1, z', 'fence 0b1111, 0x1f', 'andi s0, s0, 4000', 'slti a0, a0, 99999', 'jalr x0, 2048(t0)', 'lb a0, -3000(a1)', 'auipc t0, 1048576',
                  'beq t0, t1, 3', 'jal ra, 5', 'align 0', 'csrrw t0, t1, 4096', 'csrrs a0, x0, 0xffff', 'csrrc t0, t0, 0x1000', 'csrrwi t0, 5, 0x1000', 'csrrwi t0, 32, 0x300', 'addi {r}, {r}, 5000', 'lw {r}, 9999({r})', 'slli {r}, {r}, 40', 'csrrw t0, 4096, t1', 'c.lui t0, 64', 'c.addi16sp 1024', 'c.jal 4096', 'c.lwsp t0, 256'],
    'imm-range-pseudo': ['li t0, 1 << 40', 'li t0, 0x100000000 * 4096 + 0x1000'],
    'data-range': ['db 256', 'db -129', 'dh 65536', 'dh -32769', 'dw 4294967296', 'dw -2147483649', 'dd 18446744073709551616',
                   'bytes 256', 'bytes 1 2 -129', 'shorts 65536', 'shorts -32769', 'ints 4294967296', 'longs -2147483649',
                   'longlongs 18446744073709551616', 'pack <B 256', 'pack <b 128', 'pack <h 40000', 'pack >H -1', 'pack <I -1', 'pack <Q -1'],
    'unknown-register': ['addi q9, t0, 1', 'add t0, t1, x32', 'lw t0, 0(zz)', 'sw t0, 4(nope)', 'mv t0, r77', 'beq foo, t0, {label}',
                         'add t0, t0, bar', 'lui x99, 1', 'jal x40, {label}', 'sub s0, s0, x77', 'not t0, q1', 'jr q5', 'li y1, 5',
                         'slli t0, t0, 32', 'srai s0, s0, -1', 'srli s0, s0, NOSHAMT', 'jalr q1', 'neg t0, x33', 'bnez q3, {label}',
                         'lw x8, 0(x99)', 'sw x99, 0(x8)', 'and s0, s0, q8', 'addi x8, qq, 4', 'li y1, 0x12345678', 'li q2, -100000', 'li zz, 0xfffff800',
                         'seqz t0, q7', 'sgtz q1, t0', 'addi {rd}, zero, 1', 'mv t0, {rs}', 'lw a0, 4({base})', 'add t0, t1, %s', 'sub {0}, t0, t1', 'addi t0, %(r)s, 1', 'add {r}, {r}, q9', 'sw {r}, 0(q2)', 'bgt q1, t0, {label}', 'blez q9, {label}', 'csrrw q1, t0, 0x300', 'mul t0, t1, q2', 'amoadd.w t0, t1, q3'],
    'undefined-label': ['beq t0, t1, nolabel', 'jal ra, nolabel', 'j nolabel', 'call nolabel', 'tail nolabel', 'dw nolabel', 'li t0, nolabel',
                        'lui t0, %hi(nolabel)', 'addi t0, t0, %lo(nolabel)', 'pack <I %position(nolabel, 0)', 'beqz t0, nolabel',
                        'bgt t0, t1, nolabel', 'jal nolabel', 'bne s0, x0, nolabel', 'addi t0, t0, %offset(nolabel)', 'blez a0, nolabel'],
    'undefined-constant': ['addi t0, t0, NOCONST', 'KX = NOCONST + 1', 'db NOCONST', 'li t0, NOCONST * 2', 'lw t0, NOCONST(sp)',
                           'lui t0, %hi(NOCONST)', 'pack <I NOCONST', 'dw NOCONST + 4', 'andi s0, s0, NOCONST', 'KX = NOCONST'],
    'malformed-expr': ["KX = '\\'", "db '\\'", "addi t0, t0, '\\'", "li t0, '\\x4'", "KX = '\\u12'", 'addi t0, t0, 1 << -1', 'KX = 1 << -1', 'KX = [1][5]', 'KX = {}[0]', 'dw 1 << -1', 'li t0, 1 << -1', 'KX = 5 % 0', 'KX = (1).foo', 'KX = -"a"',
                       'addi t0, t0, (1 +', 'addi t0, t0, 1 +* 2', 'KX = 3 +', 'db 1 **', 'addi t0, t0, %hi(', 'lui t0, %lo(', 'KX = ) 4',
                       'li t0, 5 5', 'dw 1 2', 'addi t0, t0, 0x', 'addi t0, t0', 'lw t0', 'KX = ', 'pack <I', 'db', 'addi t0, t0, %position(',
                       'beq t0, t1', 'lui t0', 'add t0, t1', 'jal', 'align', 'align 4 4', 'sw t0, 4(', 'bytes 0x', 'pack'],
    'non-integer-expr': ['addi t0, t0, 1.5', 'KX = 1.5', 'db 2.5', 'KX = 3 / 2', 'bytes 1.5', 'ints 1 + 2', 'bytes foo', 'KX = "abc"',
                         'dw 1e3', 'addi t0, t0, 3 / 1', 'li t0, 2.0', 'align 1.5', 'align foo', 'KX = (1, 2)', 'KX = None', 'shorts 0x1g',
                         'KX = [1]', 'lui t0, 1.0', 'pack <I 1.5', 'pack <f 1', "KX = 'ab'"],
    'error-directive': ['error this board is not supported', 'error', 'error  ', '    error indented message', 'error "quoted" # not a comment'],
    'missing-include': ['include {self}/nofile.asm', 'include {self}/', 'include %s.asm' % ('n' * 300), 'include nofile.asm', 'include "missing dir/nofile.asm"', 'include sub/nofile.asm', 'include ../nofile.asm',
                        'include_bytes nofile.bin', 'include nofile.asm # comment', 'include', 'include a b', 'include_bytes'],
    'duplicate-label': ['{dup}:'],
    # position-dependent: the same text is valid near its target and out of range 5000 bytes further down
    'far-branch': ['beq t0, zero, farlbl', 'bne t1, t2, farlbl', 'bnez s0, farlbl', 'bgt t0, t1, farlbl', 'beq x8, x0, farlbl', 'bltu a0, a1, farlbl'],
    'invalid-syntax': ['bogus t0, t1', 'addi', '12345', 'foo bar baz', ': :', 'x = = 3', '=', 'K ='],
}
DATA_FAULT_PREFIX = ('db', 'dh', 'dw', 'dd', 'bytes', 'shorts', 'ints', 'longs', 'longlongs', 'pack', 'align')


def plant_fault(r, tree, cls, line_text=None, target_file=None, where=None):
    """Insert one faulty line into a file of the tree.  Returns (file, 1-based line number, text)."""
    labels = tree['symbols']['labels'] or ['la']
    text = line_text or r.choice(FAULTS[cls])
    if cls == 'far-branch':
        path = target_file or tree['main']
        crlf = tree['files'][path].split('\n')[0].endswith('\r')
        body = tree['files'][path].replace('\r\n', '\n').rstrip('\n').split('\n')
        if body == ['']:
            body = []
        line = '    ' + text
        body = ['farlbl:', line] + body + ['align 4', 'include_bytes farpad.bin', 'align 4', line]
        tree['files'][path] = ('\r\n' if crlf else '\n').join(body) + ('\r\n' if crlf else '\n')
        tree.setdefault('bins', {})[posixpath.dirname(path) + '/farpad.bin'] = {'rand': [r.randrange(1 << 30), 5000]}
        return path, len(body), line
    aliases = tree['symbols'].get('regconsts') or []
    text = text.replace('{label}', r.choice(labels)).replace('{dup}', r.choice(labels)).replace('{r}', r.choice(aliases) if aliases else 't0')
    self_name = posixpath.basename(target_file or tree['main'])
    paths = sorted(tree['files'])
    path = target_file or r.choice(paths)
    text = text.replace('{self}', posixpath.basename(path))        # a path THROUGH a regular file: it can name nothing
    crlf_file = '\r\n' in tree['files'][path]
    lines = tree['files'][path].replace('\r\n', '\n').split('\n')
    # valid insertion points: never inside a data block (between a data directive and its align)
    body_len = len(lines)
    while body_len and lines[body_len - 1].strip() == '' and body_len > 1:
        body_len -= 1
    pts = [i for i in range(0, body_len + 1) if i == 0 or not _in_data_block(lines, i)]
    # a register-alias definition must stay before its uses: do not care (fault line is independent)
    where = where or r.choice(('first', 'middle', 'last', 'any'))
    if where == 'first':
        pos = pts[0]
    elif where == 'last':
        pos = pts[-1]
    elif where == 'middle':
        pos = pts[len(pts) // 2]
    else:
        pos = r.choice(pts)
    ins = [('    ' if (r.random() < 0.5 and not text.startswith('include') and not text.startswith('INCLUDE')) else '') + text]
    head = text.split()[0].lower() if text.split() else ''
    if head in DATA_FAULT_PREFIX and head != 'align':
        ins.append('align 4')
    lines[pos:pos] = ins
    tree['files'][path] = '\n'.join(lines).replace('\n', '\r\n') if crlf_file else '\n'.join(lines)
    return path, pos + 1, ins[0]
