"""SimFS - an in-memory POSIX-like file system with a simulated cwd, an
operation log stamped with the run's global event sequence number, and an
I/O fault injector.  Installed from outside as asm.os / asm.open /
intelhex.open; nothing in the repo is changed.
"""
import errno
import io
import weakref
import os as _os
import posixpath


class ShimGap(AttributeError):
    """The code under test reached for a file-system call SimFS does not model."""


def _err(code, path):
    return OSError(code, _os.strerror(code), path)


class SimFS:
    def __init__(self, files=None, dirs=None, cwd='/', log=None, faults=None):
        self.files = {}
        self.dirs = {'/'}
        self.cwd = cwd
        self.log = log
        self.op_counts = {}
        self.faults = list(faults or [])
        self.fired = []
        self.mtime = {}
        self._writers = []
        for d in dirs or ():
            self.mkdirs(d)
        for p, data in (files or {}).items():
            self.put(p, data)
        self.mkdirs(cwd)

    def finalize_leaked(self):
        """A file object the code under test dropped without closing (an exception between open and close) is closed by the
        garbage collector at a moment that depends on allocation counts.  Collect at a fixed point of the run instead, so
        that its close event always lands at the same place in the event log."""
        live = [w() for w in self._writers]
        if any(r is not None and not r.closed for r in live):
            del live
            import gc
            gc.collect()
        self._writers = [w for w in self._writers if w() is not None and not w().closed]

    # -- tree --------------------------------------------------------------
    def mkdirs(self, d):
        d = posixpath.normpath(d)
        while d not in self.dirs:
            self.dirs.add(d)
            d = posixpath.dirname(d)

    def put(self, path, data):
        path = posixpath.normpath(path)
        if isinstance(data, str):
            data = data.encode('utf-8')
        self.mkdirs(posixpath.dirname(path))
        self.files[path] = bytes(data)

    def abspath(self, path):
        path = _os.fspath(path)
        if isinstance(path, bytes):
            path = path.decode()
        a = posixpath.normpath(posixpath.join(self.cwd, path))
        if path.endswith('/') and a in self.files:
            return a + '/.'          # 'file/' names nothing (POSIX: ENOTDIR); keep it distinct from the file itself
        return a

    def path_error(self, a):
        """The errno POSIX reports before even looking the name up: a component that is a regular file (ENOTDIR), a
        component longer than NAME_MAX (ENAMETOOLONG).  None if the path is well-formed."""
        parts = a.split('/')
        if any(len(c.encode('utf-8', 'replace')) > 255 for c in parts) or len(a) > 4095:
            return errno.ENAMETOOLONG
        cur = ''
        for c in parts[1:-1]:
            cur += '/' + c
            if cur in self.files:
                return errno.ENOTDIR
        return None

    def snapshot(self):
        return dict(self.files), set(self.dirs)

    # -- logging / faults ----------------------------------------------------
    def _op(self, op, path, extra=''):
        n = self.op_counts.get(op, 0) + 1
        self.op_counts[op] = n
        fault = None
        for f in self.faults:
            if f['op'] == op and not f.get('done'):
                suffix = f.get('suffix')
                if suffix and not path.endswith(suffix):
                    continue
                f['seen'] = f.get('seen', 0) + 1
                if f['seen'] == f.get('n', 1):
                    f['done'] = True
                    fault = f
                    break
        if self.log is not None:
            self.log.add('fs', op, path, extra, fault['kind'] if fault else '')
        if fault:
            self.fired.append((op, path, fault['kind']))
        return fault

    # -- os / os.path subset ---------------------------------------------------
    def exists(self, path):
        try:
            if len(path) == 0 or len(path) > 4096 or '\x00' in path:
                return False
            a = self.abspath(path)
        except TypeError:
            return False
        f = self._op('exists', a)
        if f and f['kind'] == 'lie-missing':
            return False
        return a in self.files or a in self.dirs

    def isfile(self, path):
        a = self.abspath(path)
        self._op('isfile', a)
        return a in self.files

    def isdir(self, path):
        a = self.abspath(path)
        self._op('isdir', a)
        return a in self.dirs

    def getsize(self, path):
        a = self.abspath(path)
        f = self._op('getsize', a)
        if a in self.dirs:
            return 4096
        if a not in self.files:
            raise _err(self.path_error(a) or errno.ENOENT, path)
        size = len(self.files[a])
        if f:
            # TOCTOU: the file changes right after its size was taken
            if f['kind'] == 'grow-after':
                self.files[a] = self.files[a] + b'\xa5'
            elif f['kind'] == 'shrink-after' and size:
                self.files[a] = self.files[a][:-1]
            elif f['kind'] == 'swap-after':
                self.files[a] = bytes((b ^ 0xff) for b in self.files[a])
        return size

    def listdir(self, path='.'):
        a = self.abspath(path)
        self._op('listdir', a)
        if a not in self.dirs:
            raise _err(errno.ENOENT, path)
        pre = a.rstrip('/') + '/'
        out = set()
        for p in list(self.files) + list(self.dirs):
            if p.startswith(pre) and p != a:
                out.add(p[len(pre):].split('/')[0])
        return sorted(out)

    def remove(self, path):
        a = self.abspath(path)
        self._op('remove', a)
        if a not in self.files:
            raise _err(errno.ENOENT, path)
        del self.files[a]

    def rename(self, src, dst):
        a, b = self.abspath(src), self.abspath(dst)
        self._op('rename', a, b)
        if a not in self.files:
            raise _err(errno.ENOENT, src)
        if b in self.dirs:
            raise _err(errno.EISDIR, dst)
        if posixpath.dirname(b) not in self.dirs:
            raise _err(errno.ENOENT, dst)
        self.files[b] = self.files.pop(a)

    def mkdir(self, path, mode=0o777, exist_ok=False, parents=False):
        a = self.abspath(path)
        self._op('mkdir', a)
        if a in self.dirs or a in self.files:
            if exist_ok and a in self.dirs:
                return
            raise _err(errno.EEXIST, path)
        if not parents and posixpath.dirname(a) not in self.dirs:
            raise _err(errno.ENOENT, path)
        self.mkdirs(a)

    def stat(self, path):
        a = self.abspath(path)
        self._op('stat', a)
        pe = self.path_error(a)
        if pe:
            raise _err(pe, path)
        if a in self.files:
            return _os.stat_result((0o100644, 1, 1, 1, 0, 0, len(self.files[a]), 0, 0, 0))
        if a in self.dirs:
            return _os.stat_result((0o040755, 1, 1, 1, 0, 0, 4096, 0, 0, 0))
        raise _err(errno.ENOENT, path)

    # -- open ------------------------------------------------------------------
    # -- low-level descriptors (os.open / os.fdopen / os.write / os.close) ------------------------
    def os_open(self, path, flags, mode=0o777):
        a = self.abspath(path)
        acc = flags & (_os.O_WRONLY | _os.O_RDWR)
        if not hasattr(self, 'fds'):
            self.fds = {}
            self.next_fd = 1000
        if acc == 0:
            f = self._op('open-r', a, 'os.open')
            if a in self.dirs:
                raise _err(errno.EISDIR, path)
            if a not in self.files:
                raise _err(errno.ENOENT, path)
            raw = io.BytesIO(self.files[a])
        else:
            f = self._op('open-w', a, 'os.open:%o' % flags)
            if f and f['kind'] in ('EACCES', 'ENOSPC'):
                raise _err(errno.EACCES if f['kind'] == 'EACCES' else errno.ENOSPC, path)
            if a in self.dirs:
                raise _err(errno.EISDIR, path)
            if posixpath.dirname(a) not in self.dirs:
                raise _err(errno.ENOENT, path)
            if a in self.files:
                if flags & _os.O_EXCL and flags & _os.O_CREAT:
                    raise _err(errno.EEXIST, path)
            elif not flags & _os.O_CREAT:
                raise _err(errno.ENOENT, path)
            if flags & _os.O_TRUNC or a not in self.files:
                self.files[a] = b''
            raw = _SimWriteRaw(self, a, self.files[a], append=bool(flags & _os.O_APPEND))
        fd = self.next_fd
        self.next_fd += 1
        self.fds[fd] = raw
        return fd

    def fd_raw(self, fd):
        try:
            return self.fds[fd]
        except (AttributeError, KeyError):
            raise _err(errno.EBADF, None)

    def open(self, file, mode='r', buffering=-1, encoding=None, errors=None, newline=None, closefd=True, opener=None):
        if isinstance(file, int):
            raw = self.fd_raw(file)
            if 'b' in mode:
                return raw
            return io.TextIOWrapper(raw, encoding=encoding or 'utf-8', errors=errors, newline=newline, write_through=True)
        a = self.abspath(file)
        binary = 'b' in mode
        kind = mode.replace('b', '').replace('t', '')
        plus = '+' in kind
        kind = kind.replace('+', '')
        if kind == 'r' and not plus:
            f = self._op('open-r', a, mode)
            if f:
                k = f['kind']
                if k == 'ENOENT':
                    raise _err(errno.ENOENT, file)
                if k == 'EACCES':
                    raise _err(errno.EACCES, file)
                if k == 'EIO':
                    raise _err(errno.EIO, file)
            if a in self.dirs:
                raise _err(errno.EISDIR, file)
            if a not in self.files:
                raise _err(self.path_error(a) or errno.ENOENT, file)
            data = self.files[a]
            if binary:
                return io.BytesIO(data)
            return io.TextIOWrapper(io.BytesIO(data), encoding=encoding or 'utf-8', errors=errors, newline=newline)
        # writing modes
        f = self._op('open-w', a, mode)
        if f:
            k = f['kind']
            if k == 'EACCES':
                raise _err(errno.EACCES, file)
            if k == 'ENOSPC':
                raise _err(errno.ENOSPC, file)
        if a in self.dirs:
            raise _err(errno.EISDIR, file)
        if posixpath.dirname(a) not in self.dirs:
            raise _err(errno.ENOENT, file)
        if kind == 'x' and a in self.files:
            raise _err(errno.EEXIST, file)
        if kind in ('w', 'x'):
            self.files[a] = b''            # truncate-on-open, as on a real file system
            start = b''
        elif kind == 'a':
            start = self.files.setdefault(a, b'')
        else:                               # r+
            if a not in self.files:
                raise _err(errno.ENOENT, file)
            start = self.files[a]
        raw = _SimWriteRaw(self, a, start, append=(kind == 'a'))
        self._writers.append(weakref.ref(raw))
        if binary:
            return raw
        return io.TextIOWrapper(raw, encoding=encoding or 'utf-8', errors=errors, newline=newline, write_through=True)


class _SimWriteRaw(io.RawIOBase):
    """Unbuffered writable (and readable) stream committing every write to the tree."""

    def __init__(self, fs, path, start, append=False):
        super().__init__()
        self.fs = fs
        self.path = path
        self.buf = bytearray(start)
        self.pos = len(start) if append else 0
        self.name = path
        self.mode = 'wb'

    def writable(self):
        return True

    def readable(self):
        return True

    def seekable(self):
        return True

    def seek(self, off, whence=0):
        if whence == 0:
            self.pos = off
        elif whence == 1:
            self.pos += off
        else:
            self.pos = len(self.buf) + off
        return self.pos

    def tell(self):
        return self.pos

    def truncate(self, size=None):
        size = self.pos if size is None else size
        del self.buf[size:]
        self.fs.files[self.path] = bytes(self.buf)
        return size

    def readinto(self, b):
        data = self.buf[self.pos:self.pos + len(b)]
        b[:len(data)] = data
        self.pos += len(data)
        return len(data)

    def write(self, b):
        b = bytes(b)
        f = self.fs._op('write', self.path, len(b))
        n = len(b)
        if f:
            k = f['kind']
            if k in ('ENOSPC', 'EIO'):
                half = b[:n // 2]
                self._commit(half)
                raise _err(errno.ENOSPC if k == 'ENOSPC' else errno.EIO, self.path)
        self._commit(b)
        return n

    def _commit(self, b):
        end = self.pos + len(b)
        if self.pos > len(self.buf):
            self.buf.extend(b'\x00' * (self.pos - len(self.buf)))
        self.buf[self.pos:end] = b
        self.pos = end
        self.fs.files[self.path] = bytes(self.buf)

    def close(self):
        if not self.closed:
            self.fs._op('close-w', self.path)
            self.fs.files[self.path] = bytes(self.buf)
        super().close()


class SimPath:
    """Replacement for os.path bound to a SimFS."""

    def __init__(self, fs):
        self._fs = fs

    def exists(self, p):
        return self._fs.exists(p)

    lexists = exists

    def isfile(self, p):
        return self._fs.isfile(p)

    def isdir(self, p):
        return self._fs.isdir(p)

    def islink(self, p):
        return False

    def getsize(self, p):
        return self._fs.getsize(p)

    def getmtime(self, p):
        self._fs.stat(p)
        return 0.0

    def abspath(self, p):
        return self._fs.abspath(p)

    def realpath(self, p, **kw):
        return self._fs.abspath(p)

    def relpath(self, p, start=None):
        return posixpath.relpath(self._fs.abspath(p), self._fs.abspath(start or '.'))

    def samefile(self, a, b):
        return self._fs.abspath(a) == self._fs.abspath(b)

    def expanduser(self, p):
        return p

    def __getattr__(self, name):
        if name in ('join', 'dirname', 'basename', 'split', 'splitext', 'normpath', 'isabs', 'commonpath',
                    'commonprefix', 'normcase', 'sep', 'pardir', 'curdir', 'extsep', 'altsep', 'splitdrive',
                    'expandvars', 'pathsep', 'defpath', 'devnull'):
            return getattr(posixpath, name)
        raise ShimGap('os.path.%s is not modelled by SimFS' % name)


_PURE_OS = ('fspath', 'sep', 'name', 'linesep', 'environ', 'getpid', 'urandom', 'getenv', 'pathsep', 'curdir',
            'pardir', 'extsep', 'altsep', 'devnull', 'fsencode', 'fsdecode', 'strerror', 'error', 'PathLike',
            'cpu_count', 'getuid', 'O_RDONLY', 'O_WRONLY', 'O_RDWR', 'O_CREAT', 'O_TRUNC', 'O_EXCL', 'O_APPEND', 'O_CLOEXEC', 'O_BINARY', 'SEEK_SET', 'SEEK_END', 'SEEK_CUR')


class SimOS:
    """Replacement for the `os` module bound to a SimFS."""

    def __init__(self, fs):
        self._fs = fs
        self.path = SimPath(fs)

    def getcwd(self):
        self._fs._op('getcwd', self._fs.cwd)
        return self._fs.cwd

    def chdir(self, p):
        a = self._fs.abspath(p)
        if a not in self._fs.dirs:
            raise _err(errno.ENOENT, p)
        self._fs.cwd = a

    def listdir(self, p='.'):
        return self._fs.listdir(p)

    def remove(self, p):
        return self._fs.remove(p)

    unlink = remove

    def rename(self, a, b):
        return self._fs.rename(a, b)

    replace = rename

    def mkdir(self, p, mode=0o777):
        return self._fs.mkdir(p, mode)

    def makedirs(self, p, mode=0o777, exist_ok=False):
        return self._fs.mkdir(p, mode, exist_ok=exist_ok, parents=True)

    def stat(self, p):
        return self._fs.stat(p)

    lstat = stat

    def access(self, p, mode):
        return self._fs.exists(p)

    def open(self, path, flags, mode=0o777, *, dir_fd=None):
        return self._fs.os_open(path, flags, mode)

    def fdopen(self, fd, *a, **k):
        return self._fs.open(fd, *a, **k)

    def write(self, fd, data):
        return self._fs.fd_raw(fd).write(data)

    def read(self, fd, n):
        return self._fs.fd_raw(fd).read(n)

    def close(self, fd):
        self._fs.fd_raw(fd).close()

    def fsync(self, fd):
        self._fs.fd_raw(fd)

    def ftruncate(self, fd, n):
        self._fs.fd_raw(fd).truncate(n)

    def __getattr__(self, name):
        if name in _PURE_OS:
            return getattr(_os, name)
        raise ShimGap('os.%s is not modelled by SimFS' % name)
