#!/bin/bash
# Offline sanity check of the environment the checks need; builds nothing.
set -e
cd "$(dirname "${BASH_SOURCE[0]}")/.."
mkdir -p evidence replays
PYTHONDONTWRITEBYTECODE=1 /venv/bin/python -B - <<'PY'
import sys
sys.path.insert(0, '/repo')
import bronzebeard.asm as a, intelhex
assert a.__file__.startswith('/repo/'), a.__file__
print('setup ok: bronzebeard from', a.__file__, 'intelhex', intelhex.__file__)
PY
