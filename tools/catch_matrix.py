"""Regenerate section 10 of DESIGN.md (catch matrix) from selftest/sensitivity_report.json."""
import json, os, re, sys
sys.path.insert(0, '/verif')
from mutants.specs import MUTANTS

rep = json.load(open('/verif/selftest/sensitivity_report.json'))
by = {}
for r in rep:
    by.setdefault(r['mutant'], []).append(r)
lines = ['## 10. Catch matrix', '',
         'Produced by `selftest/sensitivity.py --seeded --json selftest/sensitivity_report.json` (quick tier of each check, seed 0) and',
         '`tools/catch_matrix.py`.  Every mutation is applied to a scratch copy of `/repo` (never to `/repo` itself); each still',
         'compiles and passes the 954 pinned tests.  *caught* = the named check exits 1 with a minimised replay that reproduces',
         'in a fresh interpreter; *quiet* = a property-PRESERVING change on which the check must (and does) exit 0.', '',
         '### 10.1 Independently written breaking changes (`seeded/<id>/`, sub-agents given only the property text)', '',
         '| change | property | what it needs to manifest | result |', '|---|---|---|---|']
sd = '/verif/seeded'
for name in sorted(os.listdir(sd)):
    meta = json.load(open(os.path.join(sd, name, 'meta.json')))
    notes = open(os.path.join(sd, name, 'notes.md')).read().strip().split('\n')
    need = ' '.join(l.strip() for l in notes if re.search(r'[Nn]eeds|[Mm]anifests|only when|Needs:', l))[:260] or ' '.join(notes)[:260]
    rs = by.get('seeded/' + name, [])
    res = ', '.join('%s %s' % (r['prop'], 'caught' if r['verdict'] == 'CAUGHT' else ('quiet' if r['verdict'] == 'MISSED' and r['expect'] == 'quiet' else r['verdict'])) for r in rs)
    if meta.get('expect') == 'quiet':
        res += ' (neutralised by a later fix: see meta.json)'
    lines.append('| %s | %s | %s | %s |' % (name, meta['property'], need.replace('|', '/'), res))
lines += ['', '### 10.2 Own mutations (`mutants/specs.py`)', '', '| mutation | check: result |', '|---|---|']
for m in MUTANTS:
    rs = by.get(m['name'], [])
    res = ', '.join('%s %s' % (r['prop'], 'caught' if r['verdict'] == 'CAUGHT' else ('quiet' if r['verdict'] == 'MISSED' and r['expect'] == 'quiet' else r['verdict'] + ' (expected %s)' % r['expect'])) for r in rs)
    lines.append('| %s | %s |' % (m['name'], res))
n = len(rep)
bad = [r for r in rep if not ((r['verdict'] == 'CAUGHT' and r['expect'] == 'caught') or (r['verdict'] == 'MISSED' and r['expect'] == 'quiet'))]
lines += ['', '%d (mutation, check) pairs; %d not as expected%s.' % (n, len(bad), '' if not bad else ': ' + ', '.join('%s/%s' % (r['mutant'], r['prop']) for r in bad)), '']
p = '/verif/DESIGN.md'
s = open(p).read()
i = s.find('## 10. Catch matrix')
if i >= 0:
    s = s[:i]
s = s.rstrip('\n') + '\n\n' + '\n'.join(lines)
open(p, 'w').write(s)
print('section 10 written: %d pairs, %d unexpected' % (n, len(bad)))
