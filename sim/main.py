"""Entry point: ./check <ID> [--tier quick|thorough] [--replay FILE] [--runs N] [--workers N] [--seed N]"""
import argparse
import importlib
import os
import sys

HERE = os.path.dirname(os.path.abspath(__file__))
sys.path.insert(0, os.path.dirname(HERE))

from sim import core  # noqa: E402

MODULES = {'C10': 'sim.c10', 'C14': 'sim.c14', 'C15': 'sim.c15', 'C16': 'sim.c16', 'C17': 'sim.c17',
           'C18': 'sim.c18', 'C19': 'sim.c19'}


def main(argv=None):
    ap = argparse.ArgumentParser()
    ap.add_argument('prop')
    ap.add_argument('--tier', default=os.environ.get('VERIF_TIER', 'quick'), choices=('quick', 'thorough'))
    ap.add_argument('--replay')
    ap.add_argument('--runs', type=int)
    ap.add_argument('--workers', type=int, default=int(os.environ.get('VERIF_WORKERS', '0')) or None)
    ap.add_argument('--seed', type=int, default=int(os.environ.get('VERIF_SEED', '0') or 0))
    ap.add_argument('--no-verify-replay', action='store_true')
    ap.add_argument('--stride', type=int, default=1, help='take every k-th job of the plan (self-tests)')
    ap.add_argument('--target-runs', type=int, help='sample the plan evenly down to about N jobs (self-tests)')
    ap.add_argument('--dump-digests', help='write per-run event-log digests to this file (self-tests)')
    args = ap.parse_args(argv)
    if args.prop not in MODULES:
        print('unknown property %s (claimed: %s)' % (args.prop, ', '.join(sorted(MODULES))))
        return 2
    try:
        core.ensure_repo_on_path()
        module = importlib.import_module(MODULES[args.prop])
        if args.replay:
            return core.do_replay(module, args.replay)
        return core.run_check(module, args.tier, args.seed, workers=args.workers, runs=args.runs,
                              verify_replay=not args.no_verify_replay, stride=(-args.target_runs if args.target_runs else args.stride), dump=args.dump_digests)
    except core.HarnessError as e:
        print('HARNESS-ERROR %s' % e)
        return 2
    except BaseException as e:      # a harness crash must never look like a verdict (exit 1) or a pass (exit 0)
        if isinstance(e, SystemExit):
            raise
        import traceback
        traceback.print_exc()
        print('HARNESS-ERROR uncaught %s: %s' % (type(e).__name__, e))
        return 2


if __name__ == '__main__':
    sys.exit(main())
