"""C18 - a completed DFU run leaves the device flash equal to the firmware image."""
from . import core, dfusim, dfudev
from .dfudev import PAGE, VARIANTS

ID = 'C18'
LEVEL = 'exploration'
RULE = ('each run is one deterministic conversation of the real dfu.cli_main() with the simulated DfuSe device under '
        'virtual time; scenarios are (flash variant x firmware length x content x initial flash x start-in-error x '
        'busy/timeout schedule x swarm knobs [x transport fault]) drawn from VERIF_SEED plus a systematic boundary sweep; '
        'a run is non-trivial if it erased/wrote at least one page or exercised a fault/start-error path; distinct = distinct '
        '(variant, pages, remainder class, outcome, reach-vector) signatures')
COMPONENTS = {'real': ['bronzebeard/dfu.py (cli_main, request builders, polling loops)', 'argparse', 'struct', 'file read of the firmware (real temp file)'],
              'stub': ['usb package + device (SimDfuSe reference model)', 'time (SimClock, virtual microseconds)']}
ASSUMPTIONS = ['the device behaves as DFU 1.1 / DfuSe (AN3156) specify; no real hardware cross-check is possible in the sandbox',
               'python is not run with -O (short transfer counts are answered by assert)',
               'only the GD32 quirk path (28e9:0189) exists in dfu.py']
REQUIRED_REACH = {'quick': ['ok:completed-with-pages', 'dev:busy-poll'], 'thorough': ['ok:completed-with-pages', 'dev:busy-poll']}
EXPECTED_REACH = ['path:started-in-error', 'sched:zero-busy-polls', 'sched:three-or-more-busy-polls', 'timeout:byte0',
                  'timeout:byte1', 'timeout:byte2', 'len:zero', 'len:full-flash', 'variant:B', 'variant:8', 'variant:6',
                  'variant:4', 'dev:clrstatus', 'timeout:on-nonbusy-reply', 'fault:usberror', 'fault:short']
CHUNK = 60
CHUNK_CAP_S = 1500

parent_init = dfusim.parent_init
parent_fini = dfusim.parent_fini
worker_init = dfusim.worker_init


def plan(tier, seed):
    specs = []
    # systematic boundary sweep: every variant x boundary lengths x canonical schedules
    for v in 'B864':
        for n in dfusim.boundary_lengths(v):
            for s in (0, 1, 2):
                specs.append({'k': 'b', 'v': v, 'len': n, 's': s})
    if tier == 'thorough':
        for v in 'B864':
            for pages in range(0, VARIANTS[v] + 1):
                for rem in (0, 1, 1023):
                    n = pages * PAGE - rem
                    if 0 <= n <= VARIANTS[v] * PAGE:
                        for s in (0, 1, 2):
                            specs.append({'k': 'b', 'v': v, 'len': n, 's': s})
    nrand = 40000 if tier == 'quick' else 5000000
    specs.extend({'k': 'r'} for _ in range(nrand))
    nfault = 8000 if tier == 'quick' else 800000
    specs.extend({'k': 'f'} for _ in range(nfault))
    return specs


def make_scenario(spec, seed, idx):
    r = core.rng_for(ID, seed, idx)
    if spec['k'] == 'b':
        return {'config': 'fault-free', 'variant': spec['v'], 'pad': '3CJ',
                'fw': {'len': spec['len'], 'kind': 'random', 'seed': r.randrange(1 << 30)},
                'init': {'kind': r.choice(('ff', 'random', 'zeros')), 'seed': r.randrange(1 << 30)},
                'start_error': 0, 'sched': dfusim.canonical_sched(spec['s'], dfusim.ops_expected(spec['len'])), 'knobs': {}}
    variant = r.choice('B864')
    n = dfusim.draw_length(r, variant)
    knobs = {}
    c = r.random()
    if c < 0.1:
        knobs['all_zero'] = True
    elif c < 0.25:
        knobs['single_poll'] = True
    if r.random() < 0.3:
        knobs['idle_timeouts'] = True
    if r.random() < 0.2:
        knobs['container'] = 'bytes'
    if r.random() < 0.2:
        knobs['istring'] = r.choice((1, 4, 255))
    if r.random() < 0.2:
        # transfers take time, and not always the same time
        knobs['latency'] = [r.choice((0, 200, 1000, 1000, 2000, 3000, 5000, 6000)) for _ in range(r.randint(2, 7))]
    if r.random() < 0.15:
        knobs['fwname'] = r.choice(('-', 'firm ware.bin', 'fw.bin.dfu', '\u00fc.bin', 'fw', 'FW.BIN'))
        knobs['relname'] = True
    if r.random() < 0.05:
        knobs['fifo'] = True
    if r.random() < 0.08:
        knobs['platform'] = 'win32'
    scen = {'config': 'fault-free', 'variant': variant,
            'pad': r.choice(('3CJ', 'ABZ', '00Q9', 'zz7', 'GDX1YZ', '\u00e9BJ', '\u00e98K', '\u00f14Q', '\u4e2d6Z', 'B8J', '64K')),
            'device_id': r.choice(('28e9:0189', '28e9:0189', '28E9:0189', '0x28e9:0x0189', '28e9:189', '028E9:00189')),
            'fw': {'len': n, 'kind': r.choice(('random', 'random', 'random', 'mixed', 'zeros', 'ff', 'suffix')), 'seed': r.randrange(1 << 30)},
            'init': {'kind': r.choice(('ff', 'random', 'old', 'zeros')), 'seed': r.randrange(1 << 30)},
            'start_error': r.choice((0, 0, 0, r.randint(1, 15))),
            'sched': dfusim.draw_sched(r, dfusim.ops_expected(n), knobs), 'knobs': knobs}
    if spec['k'] == 'f':
        scen['config'] = 'fault-inject'
        nreq = 1 + dfusim.ops_expected(n) * 2 + dfusim.scheduled_polls(scen['sched'], dfusim.ops_expected(n))
        faults = []
        for _ in range(r.choice((1, 1, 2))):
            faults.append({'at': r.choice((1, 2, 3, nreq, nreq - 1, r.randint(1, max(1, nreq)))) or 1,
                           'kind': r.choice(('usberror', 'short'))})
        scen['faults'] = faults
    return scen


def run_scenario(scen, keep_events=False):
    res = core.Result()
    log = core.EventLog(keep=400 if keep_events else 0)
    x = dfusim.execute(scen, res, log)
    dev, fw, init, size = x['dev'], x['fw'], x['init'], x['size']
    outcome = x['outcome']
    fault_free = scen.get('config', 'fault-free') == 'fault-free'
    n = len(fw)
    pages = (n + PAGE - 1) // PAGE
    res.hit('variant:' + scen['variant'])
    if n == 0:
        res.hit('len:zero')
    if n == size:
        res.hit('len:full-flash')
    if scen.get('start_error'):
        res.hit('path:started-in-error')

    ok = outcome == 'ok'
    if ok:
        # C18 is conditional on the run finishing: all clauses are judged on completed runs
        exp = fw + b'\x00' * (pages * PAGE - n)
        got = bytes(dev.flash)
        if got[:len(exp)] != exp:
            first = next(i for i in range(len(exp)) if got[i] != exp[i])
            res.violate('flash-mismatch', 'image', 'flash differs from firmware+zero padding at offset %d (page %d): got %02x want %02x'
                        % (first, first // PAGE, got[first], exp[first]))
        if got[len(exp):] != init[len(exp):]:
            first = next(i for i in range(len(exp), size) if got[i] != init[i])
            res.violate('flash-mismatch', 'beyond-image', 'flash beyond the image was modified at offset %d (page %d)' % (first, first // PAGE))
        touched = set()
        for p in dev.erased_pages:
            if p == 'mass':
                touched.update(range(dev.page_count))
            else:
                touched.add(p)
        for ps in dev.written_pages:
            touched.update(ps)
        extra = sorted(p for p in touched if p >= pages)
        if extra:
            res.violate('other-page-touched', 'page', 'page(s) %s outside the image were erased or written' % extra[:8])
        bad = sorted(p for p in range(pages) if not dev.last_prog_clean.get(p, False))
        if bad and not any(v['cls'] == 'flash-mismatch' for v in res.viol):
            res.violate('erase-before-write', 'page', 'page(s) %s: last programming not preceded by an erase of that page' % bad[:8])
        elif bad:
            res.observe('erase-before-write-with-mismatch')
        seen = set()
        for cls, msg in dev.monitor:
            if cls in seen:
                continue
            seen.add(cls)
            res.violate(cls, 'monitor', msg)
        if pages:
            res.hit('ok:completed-with-pages')
        res.hit('ok:completed')
    else:
        res.hit('ended:' + outcome)
        for cls, msg in dev.monitor:
            res.observe('monitor-on-unfinished-run:' + cls)
        if fault_free:
            # bounded liveness against the compliant, fault-free device
            res.violate('no-progress', outcome,
                        'fault-free run against a compliant device did not finish: %s %s (requests=%d, cap=%d; monitors fired: %s)'
                        % (outcome, x['detail'][:200], dev.nreq, dev.step_cap, sorted(set(c for c, _ in dev.monitor)) or 'none'))
    remc = 'r0' if n % PAGE == 0 else ('r1' if n % PAGE == 1 else ('r1023' if n % PAGE == 1023 else 'rx'))
    reach_vec = ','.join(sorted(k for k in res.reach if not k.startswith('variant:')))
    res.sig = '%s|p%d|%s|%s|%s' % (scen['variant'], pages, remc, outcome, reach_vec)
    res.nontrivial = bool(pages and (dev.erased_pages or dev.written_pages)) or bool(scen.get('start_error')) or not fault_free
    res.digest = log.digest()
    res.simtime_us = x['clock'].now_us
    res.steps = log.seq
    if keep_events:
        res.events = log.events
    return res


def shrink(scen):
    return dfusim.shrink_common(scen)


def extra_evidence(batch):
    return {'simulated_time_hours': batch.simtime_us / 3.6e9,
            'configurations': {'fault-free': 'all clauses + bounded liveness', 'fault-inject': 'transport faults; only "if it reports success the flash oracle holds"'}}
